//go:build verif

package chunkparser

import (
	"fmt"
	"io"
)

// C18 — chunk parser output does not depend on how the bytes arrive.

func init() {
	vHarnesses["vH_C18_wf_8_8_8"] = vH_C18_wf_8_8_8
	vHarnesses["vH_C18_wf_8_16"] = vH_C18_wf_8_16
	vHarnesses["vH_C18_wf_16_8"] = vH_C18_wf_16_8
	vHarnesses["vH_C18_wf_12_12"] = vH_C18_wf_12_12
	vHarnesses["vH_C18_wf_24"] = vH_C18_wf_24
	vHarnesses["vH_C18_wf_8_9_8_10"] = vH_C18_wf_8_9_8_10
	vHarnesses["vH_C18_wf_8_8_16_8"] = vH_C18_wf_8_8_16_8
	vHarnesses["vH_C18_wf_init_2chunks"] = vH_C18_wf_init_2chunks
	vHarnesses["vH_C18_wf_len_lt_cap"] = vH_C18_wf_len_lt_cap
	vHarnesses["vH_C18_wf_8_8_resize"] = vH_C18_wf_8_8_resize
	vHarnesses["vH_C18_trunc_8_16"] = vH_C18_trunc_8_16
	vHarnesses["vH_C18_malformed_16"] = vH_C18_malformed_16
	vHarnesses["vH_C18_malformed_24"] = vH_C18_malformed_24
	vHarnesses["vH_C18_errors_8_8"] = vH_C18_errors_8_8
	vHarnesses["vH_C18_errors_trunc_8_16"] = vH_C18_errors_trunc_8_16
}

var vTypes = [4]string{"moov", "mdat", "moof", "free"}

// vReader hands out the stream in pieces: the first maxFrag reads have an arbitrary size 1..max,
// later ones are as large as possible; the final piece may come together with io.EOF.
type vReader struct {
	data        []byte
	pos         int
	calls       int
	maxFrag     int
	eofWithData bool
	failAt      int // return an error instead of the failAt-th read (-1: never)
	failed      bool
}

var vErrRead = fmt.Errorf("injected read error")
var vErrCallback = fmt.Errorf("injected callback error")

func (r *vReader) Read(p []byte) (int, error) {
	if r.calls == r.failAt {
		r.failed = true
		return 0, vErrRead
	}
	rem := len(r.data) - r.pos
	if rem == 0 {
		return 0, io.EOF
	}
	max := len(p)
	if rem < max {
		max = rem
	}
	n := max
	if r.calls < r.maxFrag {
		n = vInt(fmt.Sprintf("n%d", r.calls), 1, 64)
		vAssume(n <= max)
		n = vConc(n) // fork per read size: offsets stay concrete, only the payload is symbolic
	}
	r.calls++
	copy(p[:n], r.data[r.pos:r.pos+n])
	r.pos += n
	if r.pos == len(r.data) && r.eofWithData {
		return n, io.EOF
	}
	return n, nil
}

// ghost log of callbacks
var vOut [64]byte
var vOutLen int
var vNrCalls int
var vCallStart [8]int
var vCallLen [8]int
var vCallInit [8]bool
var vFailCallbackAt int
var vCbFailed bool

func vCallback(cd ChunkData) error {
	if vNrCalls == vFailCallbackAt {
		vCbFailed = true
		return vErrCallback
	}
	if vNrCalls < 8 {
		vCallStart[vNrCalls] = int(cd.Start)
		vCallLen[vNrCalls] = len(cd.Data)
		vCallInit[vNrCalls] = cd.IsInitSegment
	}
	vNrCalls++
	copy(vOut[vOutLen:], cd.Data)
	vOutLen += len(cd.Data)
	return nil
}

func vReset() {
	vOutLen, vNrCalls, vFailCallbackAt, vCbFailed = 0, 0, -1, false
	vOut = [64]byte{} // natively the globals survive from one replay vector to the next
}

// vBuildStream builds a well-formed stream with the given box sizes; box types and payload are symbolic.
func vBuildStream(sizes []int, fixedTypes []int) (data []byte, types []int) {
	total := 0
	for _, s := range sizes {
		total += s
	}
	payload := vBytes("b", total)
	data = make([]byte, total)
	pos := 0
	for i, s := range sizes {
		ti := 0
		if fixedTypes != nil {
			ti = fixedTypes[i]
		} else {
			ti = vConc(vInt(fmt.Sprintf("type%d", i), 0, 3))
		}
		types = append(types, ti)
		data[pos], data[pos+1], data[pos+2], data[pos+3] = 0, 0, byte(s>>8), byte(s)
		name := vTypes[ti]
		data[pos+4], data[pos+5], data[pos+6], data[pos+7] = name[0], name[1], name[2], name[3]
		for j := 8; j < s; j++ {
			data[pos+j] = payload[pos+j]
		}
		pos += s
	}
	return data, types
}

// box types: 0 moov, 1 mdat, 2 moof, 3 free
func vH_C18_wf_8_8_8()        { vC18WellFormed([]int{8, 8, 8}, []int{0, 2, 1}, 3, 64) }             // init + one chunk
func vH_C18_wf_8_16()         { vC18WellFormed([]int{8, 16}, []int{2, 1}, 3, 64) }                  // one chunk
func vH_C18_wf_16_8()         { vC18WellFormed([]int{16, 8}, nil, 2, 64) }                          // any types
func vH_C18_wf_12_12()        { vC18WellFormed([]int{12, 12}, []int{1, 1}, 3, 64) }                 // two mdats
func vH_C18_wf_24()           { vC18WellFormed([]int{24}, nil, 4, 64) }                             // single box, any type
func vH_C18_wf_8_9_8_10()     { vC18WellFormed([]int{8, 9, 8, 10}, []int{2, 1, 2, 1}, 2, 64) }      // two chunks
func vH_C18_wf_8_8_16_8()     { vC18WellFormed([]int{8, 8, 16, 8}, []int{2, 1, 2, 1}, 2, 64) }      // second moof as long as the first chunk
func vH_C18_wf_init_2chunks() { vC18WellFormed([]int{8, 8, 8, 8, 8}, []int{0, 2, 1, 2, 1}, 2, 64) } // init + two chunks
func vH_C18_wf_len_lt_cap() {
	// a box ends inside the spare capacity of the caller's buffer, the next one exceeds it
	vC18WellFormedBuf([]int{8, 8, 16}, []int{3, 2, 1}, 2, make([]byte, 8, 16))
}
func vH_C18_wf_8_8_resize() { vC18WellFormed([]int{8, 8}, []int{2, 1}, 2, 0) } // buffer must grow

// vC18WellFormed: for a well-formed stream and any fragmentation of the reads, the concatenated
// callback data equals the input, a callback ends at the end of every mdat box, trailing bytes are
// delivered at end of input, and the init flag is set exactly when a moov box was seen.
func vC18WellFormed(sizes []int, fixedTypes []int, maxFrag, bufLen int) {
	vC18WellFormedBuf(sizes, fixedTypes, maxFrag, make([]byte, bufLen))
}

// the caller's buffer may have spare capacity beyond its length (make([]byte, len, cap))
func vC18WellFormedBuf(sizes []int, fixedTypes []int, maxFrag int, buf []byte) {
	vReset()
	data, types := vBuildStream(sizes, fixedTypes)
	L := len(data)
	r := &vReader{data: data, maxFrag: maxFrag, eofWithData: vBool("eofWithData"), failAt: -1}
	p := NewMP4ChunkParser(r, buf, vCallback)
	err := p.Parse()
	vAssert("C18.wf.no-error", err == nil)
	vAssert("C18.wf.all-bytes-delivered", vOutLen == L)
	same := true
	for i := 0; i < L; i++ {
		if vOut[i] != data[i] {
			same = false
		}
	}
	vAssert("C18.wf.concat-equals-input", same)
	// expected chunk ends: the end of every mdat box, plus the end of input if bytes follow the last mdat
	pos, k, lastEnd := 0, 0, 0
	seenMoov := false
	for i, s := range sizes {
		pos += s
		if types[i] == 0 {
			seenMoov = true
		}
		isMdat := types[i] == 1
		if isMdat || i == len(sizes)-1 {
			vAssert("C18.wf.callback-count", k < vNrCalls)
			if k < vNrCalls && k < 8 {
				vAssert("C18.wf.callback-start", vCallStart[k] == lastEnd)
				vAssert("C18.wf.callback-ends-at-mdat-or-eof", vCallStart[k]+vCallLen[k] == pos)
				vAssert("C18.wf.init-flag", vCallInit[k] == seenMoov)
			}
			k++
			lastEnd = pos
		}
	}
	vAssert("C18.wf.no-extra-callbacks", vNrCalls == k)
	vReach("C18.wf.end")
}

// A stream cut short anywhere: parsing terminates without error and delivers exactly the bytes that arrived.
func vH_C18_trunc_8_16() {
	vReset()
	data, _ := vBuildStream([]int{8, 16}, []int{2, 1})
	cut := vConc(vInt("cut", 0, 23))
	data = data[:cut]
	r := &vReader{data: data, maxFrag: 2, eofWithData: vBool("eofWithData"), failAt: -1}
	p := NewMP4ChunkParser(r, make([]byte, 64), vCallback)
	err := p.Parse()
	vAssert("C18.trunc.no-error", err == nil)
	vAssert("C18.trunc.all-bytes-delivered", vOutLen == cut)
	same := true
	for i := 0; i < cut; i++ {
		if vOut[i] != data[i] {
			same = false
		}
	}
	vAssert("C18.trunc.concat-equals-input", same)
	vReach("C18.trunc.end")
}

// Malformed streams: box sizes below 8, beyond the end of input, wrapping the 32-bit position, or huge;
// arbitrary payload. Parse must return (no panic, no endless loop) and deliver no more than it received.
func vH_C18_malformed_16() { vC18Malformed(0) }
func vH_C18_malformed_24() { vC18Malformed(1) }

var vSizes = [14]uint32{0, 1, 7, 8, 9, 12, 16, 17, 24, 25, 0xFFFFFFF0, 0xFFFFFFF8, 0xFFFFFFFF, 0x00010000}

func vPickSize(name string) uint32 {
	return vSizes[vConc(vInt(name, 0, 13))]
}

func vPutHeader(data []byte, pos int, size uint32, ti int) {
	data[pos], data[pos+1], data[pos+2], data[pos+3] = byte(size>>24), byte(size>>16), byte(size>>8), byte(size)
	name := vTypes[ti]
	data[pos+4], data[pos+5], data[pos+6], data[pos+7] = name[0], name[1], name[2], name[3]
}

func vC18Malformed(maxFrag int) {
	vReset()
	const L = 24
	data := []byte(vBytes("s", L))
	s0 := vPickSize("s0")
	vPutHeader(data, 0, s0, vConc(vInt("t0", 0, 1)))
	if s0 >= 8 && s0 <= 16 {
		s1 := vPickSize("s1")
		vPutHeader(data, int(s0), s1, vConc(vInt("t1", 0, 1)))
	}
	r := &vReader{data: data, maxFrag: maxFrag, eofWithData: vBool("eofWithData"), failAt: -1}
	p := NewMP4ChunkParser(r, make([]byte, 64), vCallback)
	err := p.Parse()
	vAssert("C18.malformed.size-below-8-is-an-error", !(s0 < 8) || err != nil)
	vAssert("C18.malformed.no-more-than-input", vOutLen <= L)
	vReach("C18.malformed.end")
}

// Read and callback errors are returned.
func vH_C18_errors_8_8() {
	vReset()
	data, _ := vBuildStream([]int{8, 8}, []int{2, 1})
	failRead := vInt("failRead", -1, 3)
	failCb := vInt("failCb", -1, 1)
	vFailCallbackAt = failCb
	r := &vReader{data: data, maxFrag: 2, eofWithData: vBool("eofWithData"), failAt: failRead}
	p := NewMP4ChunkParser(r, make([]byte, 64), vCallback)
	err := p.Parse()
	// an injected error ends parsing and is what Parse returns; without one Parse succeeds
	if vCbFailed {
		vAssert("C18.errors.callback-error-returned", err == vErrCallback)
	} else if r.failed {
		vAssert("C18.errors.read-error-returned", err == vErrRead)
	} else {
		vAssert("C18.errors.none-no-error", err == nil)
	}
	vReach("C18.errors.end")
}

// Errors on a stream cut short anywhere (inside a header, inside a box body, at a box boundary): an error returned by
// the callback for the trailing bytes - or by any read - is what Parse returns, and nothing is delivered after it.
func vH_C18_errors_trunc_8_16() {
	vReset()
	data, _ := vBuildStream([]int{8, 16}, []int{2, 1})
	cut := vConc(vInt("cut", 1, 24))
	data = data[:cut]
	failRead := vInt("failRead", -1, 3)
	failCb := vInt("failCb", -1, 1)
	vFailCallbackAt = failCb
	r := &vReader{data: data, maxFrag: 2, eofWithData: vBool("eofWithData"), failAt: failRead}
	p := NewMP4ChunkParser(r, make([]byte, 64), vCallback)
	err := p.Parse()
	if vCbFailed {
		vAssert("C18.errors-trunc.callback-error-returned", err == vErrCallback)
		vAssert("C18.errors-trunc.no-callback-after-error", vNrCalls == failCb)
	} else if r.failed {
		vAssert("C18.errors-trunc.read-error-returned", err == vErrRead)
	} else {
		vAssert("C18.errors-trunc.none-no-error", err == nil)
		vAssert("C18.errors-trunc.all-bytes-delivered", vOutLen == cut)
	}
	vReach("C18.errors-trunc.end")
}
