//go:build verif

package app

import (
	"context"
	"net/http"
	"net/url"

	"github.com/Eyevinn/mp4ff/mp4"
)

// C19 (channel goroutine against upload handlers): the channel's own goroutine processes the report of the second
// complete segment of the master track and tunes the channel in (master segment duration, timescale, shifts, buffer
// window) while a request goroutine handles the upload of the next media segment, which reads these values to decide
// about shifting and about which old file to delete. Everything both touch must be protected by a common lock.

func init() {
	vHarnesses["vH_C19_tunein_vs_upload_lockset"] = vH_C19_tunein_vs_upload_lockset
	vHarnesses["vH_C19_register_vs_channel_lockset"] = vH_C19_register_vs_channel_lockset
}

func vH_C19_tunein_vs_upload_lockset() {
	vDecSeqNr, vDecTime, vDecSamples = 9, 0, 3
	vCreated, vRemoved = nil, nil
	storage := vUploadSetup(9, 0)
	r, err := NewReceiver(context.Background(), &Options{prefix: "/upload", storage: storage}, &Config{})
	vAssert("C19.tunein.receiver-ok", err == nil)
	ch := vMkStartupChannel(90000, 10)
	ch.dir = storage + "/chA"
	ch.recSegCh = make(chan recSegData, 8)
	if ch.trDatas["video"].init == nil { // under symbolic execution: only what the upload callback reads
		ch.trDatas["video"].init = &mp4.InitSegment{Moov: &mp4.MoovBox{Mvex: &mp4.MvexBox{Trex: &mp4.TrexBox{DefaultSampleDuration: 1000}}}}
	}
	r.channelMgr.channels["chA"] = ch
	vNextStream = stream{chName: "chA", trName: "video", ext: ".cmfv", mediaType: "video", chDir: storage + "/chA", trDir: storage + "/chA/video"}
	r.streams[vNextStream.id()] = vNextStream
	const d = 180000
	ch.receivedSegData(recSegData{name: "video", seqNr: 7, dts: 7 * d, dur: d, totDur: d, chunkNr: 1, isComplete: true})
	body := vMkUploadBody(9, 9*d)
	w := &vRecW{hdr: http.Header{}}
	req := &http.Request{Method: "PUT", URL: &url.URL{Path: "/upload/chA/video/seg.cmfv"}, Header: http.Header{}, Body: &vEnvBody{data: body}}
	// the channel goroutine: second complete segment, the channel tunes in
	vThread(1)
	ch.receivedSegData(recSegData{name: "video", seqNr: 8, dts: 8 * d, dur: d, totDur: d, chunkNr: 1, isComplete: true})
	// a request goroutine: the next media segment
	vThread(2)
	r.SegmentHandlerFunc(w, req)
	vThread(0)
	vAssert("C19.tunein.tuned-in", ch.masterSegDuration == d)
	vAssert("C19.tunein.answered-200", w.status == 200)
	vReach("C19.tunein.end")
}

// A request goroutine registers a further track (addTrData) while the channel goroutine processes segment reports of
// the master track and tunes the channel in (reads the track table and the master track name).
func vH_C19_register_vs_channel_lockset() {
	ch := vMkStartupChannel(90000, 10)
	const d = 180000
	ch.receivedSegData(recSegData{name: "video", seqNr: 7, dts: 7 * d, dur: d, totDur: d, chunkNr: 1, isComplete: true})
	vThread(1)
	ch.addTrData(&trData{name: "audio", contentType: "audio", timeScaleIn: 48000, timeScaleOut: 48000})
	vThread(2)
	ch.receivedSegData(recSegData{name: "video", seqNr: 8, dts: 8 * d, dur: d, totDur: d, chunkNr: 1, isComplete: true})
	vThread(0)
	vAssert("C19.register.tuned-in", ch.masterSegDuration == d)
	vAssert("C19.register.master-stays-video", ch.masterTrName == "video")
	vAssert("C19.register.both-tracks", len(ch.trDatas) == 2)
	vReach("C19.register.end")
}

// The report of a received chunk / complete segment is handed to the channel goroutine through ch.recSegCh. When the
// queue is full the handler has to wait (a send that blocks: under symbolic execution that path simply ends, there
// is no second goroutine in the model); returning without having queued the report would lose the upload for the
// segment timeline. With room in the queue the report is queued as it is.
func init() {
	vHarnesses["vH_C19_report_queue_never_drops"] = vH_C19_report_queue_never_drops
}

func vH_C19_report_queue_never_drops() {
	ch := &channel{name: "chA", recSegCh: make(chan recSegData, 1)}
	full := vBool("full")
	if full {
		ch.recSegCh <- recSegData{name: "video", seqNr: 1}
	}
	seq := vInt("seq", 2, 1<<30)
	ch.addChunkData(recSegData{name: "audio", seqNr: uint32(seq), chunkNr: 1, isComplete: true})
	// reaching this point means addChunkData returned
	vAssert("C19.queue.returned-only-after-queueing", !full && len(ch.recSegCh) == 1)
	if len(ch.recSegCh) == 1 {
		got := <-ch.recSegCh
		vAssert("C19.queue.report-unchanged", got.name == "audio" && int(got.seqNr) == seq && got.isComplete && got.chunkNr == 1)
	}
	vReach("C19.queue.end")
}

// An upload is attributed to its stream by stream.id(): two uploads share an entry of the stream table exactly when
// they belong to the same channel and the same track - also for nested channel names that share their last path
// element, and for a track name that equals part of a channel name.
func init() {
	vHarnesses["vH_C19_stream_ids_distinct"] = vH_C19_stream_ids_distinct
}

var vC19ChNames = [4]string{"live", "east/live", "west/live", "east"}
var vC19TrNames = [3]string{"video", "audio", "live"}

func vH_C19_stream_ids_distinct() {
	c1 := vConc(vInt("ch1", 0, 3))
	c2 := vConc(vInt("ch2", 0, 3))
	t1 := vConc(vInt("tr1", 0, 2))
	t2 := vConc(vInt("tr2", 0, 2))
	mk := func(c, t int) stream {
		ch, tr := vC19ChNames[c], vC19TrNames[t]
		return stream{chName: ch, trName: tr, ext: ".cmfv", mediaType: "video", chDir: "/storage/" + ch, trDir: "/storage/" + ch + "/" + tr}
	}
	s1, s2 := mk(c1, t1), mk(c2, t2)
	same := c1 == c2 && t1 == t2
	vAssert("C19.streamid.same-entry-iff-same-channel-and-track", (s1.id() == s2.id()) == same)
	vReach("C19.streamid.end")
}
