//go:build verif

package app

import (
	"context"
	"net/http"
	"net/url"
	"os"

	"github.com/Eyevinn/mp4ff/bits"
	"github.com/Eyevinn/mp4ff/mp4"
)

// C17 (upload handler glue): one media-segment upload through the real SegmentHandlerFunc and its chunk-parser
// callback for a channel that is already tuned in: the segment is stored under its track as <outgoing number><ext>
// (outgoing number = incoming mfhd sequence number - the channel's start number), the data announced to the timeline
// generator carries that same number, and the only file removed is the one that just left the buffer window:
// <outgoing number - maxNrBufSegs><ext> - never a file the published MPD can still list.
// Stubs: path matching, mp4 decoding (returns a fragment with symbolic sequence number / decode time / sample count),
// file creation/removal (recorded), the final write.

func init() {
	vHarnesses["vH_C17_upload_file_window"] = vH_C17_upload_file_window
}

var vDecSeqNr, vDecTime, vDecSamples int

func vStubDecodeChunk(sr bits.SliceReader, options ...mp4.Option) (*mp4.File, error) {
	tfdt := &mp4.TfdtBox{}
	tfdt.SetBaseMediaDecodeTime(uint64(vDecTime))
	trun := &mp4.TrunBox{Samples: make([]mp4.Sample, vDecSamples)}
	traf := &mp4.TrafBox{Tfhd: &mp4.TfhdBox{}, Tfdt: tfdt, Trun: trun}
	moof := &mp4.MoofBox{Mfhd: &mp4.MfhdBox{SequenceNumber: uint32(vDecSeqNr)}, Traf: traf}
	seg := &mp4.MediaSegment{Fragments: []*mp4.Fragment{{Moof: moof}}}
	return &mp4.File{Segments: []*mp4.MediaSegment{seg}}, nil
}

var vCreated, vRemoved []string

func vStubOsCreate(name string) (*os.File, error) { vCreated = append(vCreated, name); return nil, nil }
func vStubOsRemove(name string) error             { vRemoved = append(vRemoved, name); return nil }
func vStubFileExists(p string) bool               { return true }
func vStubFileWrite(f *os.File, b []byte) (int, error) { return len(b), nil }
func vStubFileName(f *os.File) string             { return "f" }
func vStubFinalClose(c interface{ Close() error }) {}

func vStubUploadSetup(out, maxBuf int) string { return "/storage" }

func vStubMkUploadBody(seqNr, tfdt int) []byte {
	vDecSeqNr, vDecTime, vDecSamples = seqNr, tfdt, 3
	return []byte{0, 0, 0, 8, 'm', 'o', 'o', 'f', 0, 0, 0, 8, 'm', 'd', 'a', 't'}
}

// the recorded operations applied to the directory the native side prepares: the files out-maxBuf-2 .. out-1 exist
// beforehand; a created file that is removed again is gone, removing a file that does not exist has no effect
func vStubUploadEffects(storage string, out, maxBuf int) (created, removed []string) {
	for _, c := range vCreated {
		gone := false
		for _, r := range vRemoved {
			if vFmtInt(r) == vFmtInt(c) {
				gone = true
			}
		}
		k := vFmtInt(c)
		existed := k >= 0 && k >= out-maxBuf-2 && k < out
		if !gone && !existed {
			created = append(created, c)
		}
	}
	for _, r := range vRemoved {
		k := vFmtInt(r)
		if k >= 0 && k >= out-maxBuf-2 && k < out {
			removed = append(removed, r)
		}
	}
	return created, removed
}

func vH_C17_upload_file_window() {
	startNr := vInt("startNr", 0, 3)
	maxBuf := vInt("maxNrBufSegs", 0, 8)
	seqIn := vInt("seqNrIn", 0, 1<<30)
	vAssume(seqIn >= startNr+maxBuf) // a running stream: the window has filled
	tfdt := vInt("tfdt", 0, 1<<40)
	vCreated, vRemoved = nil, nil
	out := seqIn - startNr
	storage := vUploadSetup(out, maxBuf)
	r, err := NewReceiver(context.Background(), &Options{prefix: "/upload", storage: storage}, &Config{})
	vAssert("C17.upload.receiver-ok", err == nil)
	init := &mp4.InitSegment{Moov: &mp4.MoovBox{Mvex: &mp4.MvexBox{Trex: &mp4.TrexBox{DefaultSampleDuration: 1000}}}}
	ch := &channel{name: "chA", dir: storage + "/chA", trDatas: map[string]*trData{"video": {name: "video", contentType: "video", init: init, timeScaleIn: 90000, timeScaleOut: 90000}},
		repsCfg: map[string]RepresentationConfig{}, startNr: startNr, maxNrBufSegs: uint32(maxBuf), recSegCh: make(chan recSegData, 8)}
	r.channelMgr.channels["chA"] = ch
	vNextStream = stream{chName: "chA", trName: "video", ext: ".cmfv", mediaType: "video", chDir: storage + "/chA", trDir: storage + "/chA/video"}
	r.streams[vNextStream.id()] = vNextStream
	body := vMkUploadBody(seqIn, tfdt)
	w := &vRecW{hdr: http.Header{}}
	req := &http.Request{Method: "PUT", URL: &url.URL{Path: "/upload/chA/video/seg.cmfv"}, Header: http.Header{}, Body: &vEnvBody{data: body}}
	r.SegmentHandlerFunc(w, req)
	vAssert("C17.upload.answered-200", w.status == 200)
	created, removed := vUploadEffects(storage, out, maxBuf)
	vAssert("C17.upload.one-file-created", len(created) == 1)
	if len(created) == 1 {
		vAssert("C17.upload.stored-under-outgoing-number", vFmtInt(created[0]) == out)
	}
	if maxBuf > 0 {
		vAssert("C17.upload.one-file-removed", len(removed) == 1)
		if len(removed) == 1 {
			vAssert("C17.upload.removed-file-just-left-the-window", vFmtInt(removed[0]) == out-maxBuf)
		}
	} else {
		vAssert("C17.upload.nothing-removed-without-window", len(removed) == 0)
	}
	// what the timeline generator is told (first message: chunk 0, last message: the complete segment)
	n := len(ch.recSegCh)
	vAssert("C17.upload.announced", n >= 1)
	for i := 0; i < n; i++ {
		rsd := <-ch.recSegCh
		vAssert("C17.upload.announced-number-is-stored-number", int(rsd.seqNr) == out)
		vAssert("C17.upload.announced-track", rsd.name == "video")
		if i == n-1 {
			vAssert("C17.upload.last-message-complete", rsd.isComplete)
			vAssert("C17.upload.duration-from-samples", int(rsd.dur) == 3*1000)
		}
	}
	vReach("C17.upload.end")
}
