//go:build verif

package app

import (
	"bytes"
	"fmt"
	"os"
	"path/filepath"

	"github.com/Eyevinn/mp4ff/mp4"
)

// native side of vH_C17_upload_file_window: a real storage directory that already holds the segments of the buffer
// window (and two older ones), a real encoded media fragment as upload body, and the file-system effects afterwards.

func vUploadNrs(out, maxBuf int) []int {
	var nrs []int
	for k := out - maxBuf - 2; k < out; k++ {
		if k >= 0 {
			nrs = append(nrs, k)
		}
	}
	return nrs
}

func vUploadSetup(out, maxBuf int) string {
	storage, err := os.MkdirTemp("", "verifC17")
	if err != nil {
		panic(err)
	}
	trDir := filepath.Join(storage, "chA", "video")
	if err := os.MkdirAll(trDir, 0o755); err != nil {
		panic(err)
	}
	for _, k := range vUploadNrs(out, maxBuf) {
		if err := os.WriteFile(filepath.Join(trDir, fmt.Sprintf("%d.cmfv", k)), []byte{1}, 0o644); err != nil {
			panic(err)
		}
	}
	return storage
}

func vMkUploadBody(seqNr, tfdt int) []byte {
	frag, err := mp4.CreateFragment(uint32(seqNr), 1)
	if err != nil {
		panic(err)
	}
	for i := 0; i < 3; i++ {
		frag.AddFullSample(mp4.FullSample{Sample: mp4.Sample{Flags: mp4.SyncSampleFlags, Dur: 1000, Size: 4}, DecodeTime: uint64(tfdt + 1000*i), Data: []byte{1, 2, 3, 4}})
	}
	var buf bytes.Buffer
	if err := frag.Encode(&buf); err != nil {
		panic(err)
	}
	return buf.Bytes()
}

func vUploadEffects(storage string, out, maxBuf int) (created, removed []string) {
	trDir := filepath.Join(storage, "chA", "video")
	before := map[string]bool{}
	for _, k := range vUploadNrs(out, maxBuf) {
		before[fmt.Sprintf("%d.cmfv", k)] = true
	}
	ents, err := os.ReadDir(trDir)
	if err != nil {
		panic(err)
	}
	now := map[string]bool{}
	for _, e := range ents {
		now[e.Name()] = true
		if !before[e.Name()] {
			created = append(created, e.Name())
		}
	}
	for n := range before {
		if !now[n] {
			removed = append(removed, n)
		}
	}
	os.RemoveAll(storage)
	return created, removed
}
