//go:build verif

package app

import (
	"fmt"
	"log/slog"

	"github.com/Eyevinn/dash-mpd/mpd"
)

// C17 — ingest receiver: stored media and timeline MPD agree for any arrival order.
//
// Style 1: one operation from an ARBITRARY valid state (symbolic arrays + representation invariant),
// window 4: invariant preserved + abstract effect (counts never over-report, newest never lost ...).
// Style 2: bounded histories through the generator API from the initial state.

const vW = 4

func init() {
	vHarnesses["vH_C17_counters_add"] = vH_C17_counters_add
	vHarnesses["vH_C17_counters_drop"] = vH_C17_counters_drop
	vHarnesses["vH_C17_counters_resize"] = vH_C17_counters_resize
	vHarnesses["vH_C17_buffer_add"] = vH_C17_buffer_add
	vHarnesses["vH_C17_buffer_resize"] = vH_C17_buffer_resize
	vHarnesses["vH_C17_buffer_drop"] = vH_C17_buffer_drop
	vHarnesses["vH_C17_buffer_removeUnshifted"] = vH_C17_buffer_removeUnshifted
	vHarnesses["vH_C17_history_2tracks_4"] = vH_C17_history_2tracks_4
	vHarnesses["vH_C17_history_2tracks_5"] = vH_C17_history_2tracks_5
}

// ---------- seqCounters ----------

func vMkCounters(W int) *seqCounters {
	s := newSeqCounters(uint32(W))
	for i := 0; i < W; i++ {
		s.counters[i].seqNr = uint32(vInt(fmt.Sprintf("sq%d", i), 0, 1<<20))
		s.counters[i].count = uint32(vInt(fmt.Sprintf("ct%d", i), 0, 8))
	}
	s._nrCounters = uint32(vInt("n", 0, W))
	return s
}

// vCountersInv: n <= W = len = windowSize; numbers strictly increasing; counts >= 1; span < W.
func vCountersInv(s *seqCounters, W int) bool {
	n := int(s._nrCounters)
	ok := n <= W && len(s.counters) == W && int(s.windowSize) == W
	for i := 0; i < W && i < len(s.counters); i++ {
		if i < n {
			if s.counters[i].count < 1 {
				ok = false
			}
			if i+1 < n && i+1 < len(s.counters) {
				if s.counters[i].seqNr >= s.counters[i+1].seqNr {
					ok = false
				}
			}
			if s.counters[i].seqNr-s.counters[0].seqNr >= uint32(W) {
				ok = false
			}
		}
	}
	return ok
}

// vCnt is the abstract view: how many tracks are counted for sequence number q.
func vCnt(s *seqCounters, q uint32) int {
	c := 0
	for i := 0; i < len(s.counters) && i < vW+2; i++ {
		if i < int(s._nrCounters) && s.counters[i].seqNr == q {
			c += int(s.counters[i].count)
		}
	}
	return c
}

func vH_C17_counters_add() {
	s := vMkCounters(vW)
	vAssume(vCountersInv(s, vW))
	x := uint32(vInt("x", 0, 1<<20))
	q := uint32(vInt("q", 0, 1<<20)) // probe
	n0 := int(s._nrCounters)
	before, beforeX := vCnt(s, q), vCnt(s, x)
	var max0, min0 uint32
	if n0 > 0 {
		max0 = s.counters[n0-1].seqNr
		min0 = s.minFromMax(max0)
	}
	s.add(x)
	vAssert("C17.counters.add.invariant", vCountersInv(s, vW))
	after, afterX := vCnt(s, q), vCnt(s, x)
	inc := 0
	if q == x {
		inc = 1
	}
	// a count never over-reports: "full" must mean that every track really delivered the number
	vAssert("C17.counters.add.no-over-count", after <= before+inc)
	if n0 == 0 || x > max0 {
		vAssert("C17.counters.add.newest-counted-once", afterX == 1)
		vAssert("C17.counters.add.newest-is-last", s._nrCounters >= 1 && s.counters[s._nrCounters-1].seqNr == x)
	} else if x < min0 {
		vAssert("C17.counters.add.too-old-ignored", after == before)
	} else {
		if beforeX > 0 {
			vAssert("C17.counters.add.in-window-counted", afterX == beforeX+1)
		} else {
			// a late number that is not stored yet is either inserted (count 1) or ignored, never more
			vAssert("C17.counters.add.late-number-at-most-one", afterX <= 1)
		}
		if q > x {
			vAssert("C17.counters.add.newer-kept", after == before)
		}
	}
	vReach("C17.counters.add.end")
}

func vH_C17_counters_drop() {
	s := vMkCounters(vW)
	vAssume(vCountersInv(s, vW))
	x := uint32(vInt("x", 0, 1<<20))
	q := uint32(vInt("q", 0, 1<<20))
	before := vCnt(s, q)
	s.drop(x)
	vAssert("C17.counters.drop.invariant", vCountersInv(s, vW))
	if q == x {
		vAssert("C17.counters.drop.gone", vCnt(s, q) == 0)
	} else {
		vAssert("C17.counters.drop.others-kept", vCnt(s, q) == before)
	}
	vReach("C17.counters.drop.end")
}

func vH_C17_counters_resize() {
	s := vMkCounters(vW)
	vAssume(vCountersInv(s, vW))
	newW := vConc(vInt("newW", 1, 6))
	q := uint32(vInt("q", 0, 1<<20))
	before := vCnt(s, q)
	n0 := int(s._nrCounters)
	var max0 uint32
	if n0 > 0 {
		max0 = s.counters[n0-1].seqNr
	}
	s.resize(uint32(newW))
	vAssert("C17.counters.resize.len", len(s.counters) == newW && int(s.windowSize) == newW)
	vAssert("C17.counters.resize.nr-fits", int(s._nrCounters) <= newW)
	if int(s._nrCounters) <= newW {
		vAssert("C17.counters.resize.no-over-count", vCnt(s, q) <= before)
		if n0 > 0 {
			vAssert("C17.counters.resize.newest-kept", vCnt(s, max0) >= 1)
		}
	}
	vReach("C17.counters.resize.end")
}

// ---------- segDataBuffer ----------

func vMkBuffer(W int) *segDataBuffer {
	b := newSegDataBuffer(uint32(W))
	for i := 0; i < W; i++ {
		b.items[i] = recSegData{name: "v", seqNr: uint32(vInt(fmt.Sprintf("sq%d", i), 0, 1<<20)),
			dts: uint64(vInt(fmt.Sprintf("dts%d", i), 0, 1<<40)), dur: uint32(vInt(fmt.Sprintf("dur%d", i), 1, 1<<20)),
			isShifted: vBool(fmt.Sprintf("sh%d", i))}
	}
	b._nrItems = uint32(vInt("n", 0, W))
	return b
}

// vBufferInv: n <= size = len(items); sequence numbers strictly increasing.
func vBufferInv(b *segDataBuffer) bool {
	n := int(b._nrItems)
	ok := n <= int(b.size) && len(b.items) == int(b.size)
	for i := 0; i+1 < len(b.items) && i < vW+2; i++ {
		if i+1 < n && b.items[i].seqNr >= b.items[i+1].seqNr {
			ok = false
		}
	}
	return ok
}

func vH_C17_buffer_add() {
	b := vMkBuffer(vW)
	vAssume(vBufferInv(b))
	x := uint32(vInt("x", 0, 1<<20))
	q := uint32(vInt("q", 0, 1<<20))
	itQ, hadQ := b.getItem(q)
	n0 := int(b._nrItems)
	var last uint32
	if n0 > 0 {
		last = b.items[n0-1].seqNr
	}
	item := recSegData{name: "v", seqNr: x, dts: uint64(vInt("xdts", 0, 1<<40)), dur: uint32(vInt("xdur", 1, 1<<20))}
	err := b.add(item)
	vAssert("C17.buffer.add.invariant", vBufferInv(b))
	if n0 > 0 && x <= last {
		vAssert("C17.buffer.add.not-increasing-rejected", err != nil)
	} else {
		vAssert("C17.buffer.add.accepted", err == nil)
		got, ok := b.getItem(x)
		vAssert("C17.buffer.add.stored", ok && got.dts == item.dts && got.dur == item.dur)
		vAssert("C17.buffer.add.newest-is-last", b._nrItems >= 1 && b.items[b._nrItems-1].seqNr == x)
	}
	// nothing is invented or altered: an item found afterwards was there before (or is the new one), unchanged
	if q != x {
		g, ok := b.getItem(q)
		if ok {
			vAssert("C17.buffer.add.others-unchanged", hadQ && g.dts == itQ.dts && g.dur == itQ.dur)
		}
		if hadQ && err == nil && n0 < vW {
			vAssert("C17.buffer.add.kept-while-room", ok)
		}
	}
	vReach("C17.buffer.add.end")
}

func vH_C17_buffer_resize() {
	b := vMkBuffer(vW)
	vAssume(vBufferInv(b))
	newW := vConc(vInt("newW", 1, 6))
	n0 := int(b._nrItems)
	var last uint32
	if n0 > 0 {
		last = b.items[n0-1].seqNr
	}
	b.resize(uint32(newW))
	vAssert("C17.buffer.resize.invariant", vBufferInv(b))
	vAssert("C17.buffer.resize.size", int(b.size) == newW)
	if n0 > 0 {
		_, ok := b.getItem(last)
		vAssert("C17.buffer.resize.newest-kept", ok)
	}
	vReach("C17.buffer.resize.end")
}

func vH_C17_buffer_drop() {
	b := vMkBuffer(vW)
	vAssume(vBufferInv(b))
	x := uint32(vInt("x", 0, 1<<20))
	q := uint32(vInt("q", 0, 1<<20))
	_, hadQ := b.getItem(q)
	b.dropSeqNr(x)
	vAssert("C17.buffer.drop.invariant", vBufferInv(b))
	_, ok := b.getItem(q)
	if q == x {
		vAssert("C17.buffer.drop.gone", !ok)
	} else {
		vAssert("C17.buffer.drop.others-kept", ok == hadQ)
	}
	vReach("C17.buffer.drop.end")
}

func vH_C17_buffer_removeUnshifted() {
	b := vMkBuffer(vW)
	vAssume(vBufferInv(b))
	n0 := int(b._nrItems)
	removed := b.removeUnshifted()
	vAssert("C17.buffer.removeUnshifted.invariant", vBufferInv(b))
	vAssert("C17.buffer.removeUnshifted.count", int(b._nrItems)+len(removed) == n0)
	if b._nrItems > 0 {
		vAssert("C17.buffer.removeUnshifted.first-is-shifted", b.items[0].isShifted)
	}
	vReach("C17.buffer.removeUnshifted.end")
}

// ---------- bounded histories through the generator ----------

func vH_C17_history_2tracks_4() { vC17History(4) }
func vH_C17_history_2tracks_5() { vC17History(5) }

var vTrackNames = [2]string{"v", "a"}

// vC17History: uploads of two tracks in any interleaving and order (numbers 1..6, possibly with gaps and
// duplicates); the generator is started (window 3) after a symbolic number of uploads. After every upload:
// no panic; the listed range is contiguous, every track has a stored segment for every listed number and
// the S elements reproduce exactly their times/durations; the newest listed number never decreases.
func vC17History(steps int) {
	g := newSegmentTimelineGenerator("", initialSegmentsWindow)
	startAt := vConc(vInt("startAt", 1, steps))
	latest := uint32(0)
	for k := 0; k < steps; k++ {
		tr := vTrackNames[vConc(vInt(fmt.Sprintf("tr%d", k), 0, 1))]
		seq := uint32(vInt(fmt.Sprintf("seq%d", k), 1, 6))
		dur := uint32(vInt(fmt.Sprintf("dur%d", k), 1, 3))
		item := recSegData{name: tr, seqNr: seq, dts: uint64(seq) * 10, dur: dur, isComplete: true}
		newSeqNr, _ := g.addSegmentData(slog.Default(), item)
		if k+1 == startAt {
			g.start(3, false)
		}
		if newSeqNr != 0 {
			first, last := g.counters.fullRange(g._nrTracks)
			vAssert("C17.history.range-ordered", first <= last)
			vAssert("C17.history.new-number-in-range", newSeqNr <= last && newSeqNr >= first)
			vAssert("C17.history.newest-never-decreases", last >= latest)
			vAssert("C17.history.range-within-window", last-first < 3)
			for _, name := range vTrackNames {
				buf, have := g.segDataBuffers[name]
				if !have {
					continue
				}
				vAssert("C17.history.buffer-within-window", buf.nrItems() <= 3)
				vAssert("C17.history.buffer-capacity-is-window", int(buf.size) <= 3 && len(buf.items) <= 3)
				as := &mpd.AdaptationSetType{}
				as.SegmentTemplate = &mpd.SegmentTemplateType{}
				as.Representations = []*mpd.RepresentationType{{Id: name}}
				err := g.modifySegmentTemplate(as, nil, first, last)
				vAssert("C17.history.every-track-has-every-listed-segment", err == nil)
				if err == nil {
					vAssert("C17.history.startNumber", *as.SegmentTemplate.StartNumber == first)
					// expand S elements and compare with the stored segments
					nr := first
					t := uint64(0)
					for _, s := range as.SegmentTemplate.SegmentTimeline.S {
						if s.T != nil {
							t = *s.T
						}
						for j := 0; j <= s.R; j++ {
							it, ok := buf.getItem(nr)
							vAssert("C17.history.listed-is-stored", ok)
							if ok {
								vAssert("C17.history.listed-dur", uint64(it.dur) == s.D)
								if nr == first {
									vAssert("C17.history.listed-start", it.dts == t)
								}
							}
							t += s.D
							nr++
						}
					}
					vAssert("C17.history.listed-count", nr == last+1)
				}
			}
			latest = last
			g.latestSeqNr = last // as generateSegmentTimelineNrMPD does after writing the MPD
		}
	}
	vReach("C17.history.end")
}

// ---------- which numbers are reported as complete ----------

func init() {
	vHarnesses["vH_C17_counters_fullRange"] = vH_C17_counters_fullRange
	vHarnesses["vH_C17_counters_newFullCounter"] = vH_C17_counters_newFullCounter
}

// vH_C17_counters_fullRange: from an arbitrary valid state, the reported range [first,last] contains only
// numbers that are stored and counted for every track, is contiguous (every number in it is stored), and
// last is the newest complete number.
func vH_C17_counters_fullRange() {
	s := vMkCounters(vW)
	vAssume(vCountersInv(s, vW))
	nrTracks := uint32(vInt("nrTracks", 1, 3))
	q := uint32(vInt("q", 0, 1<<20)) // probe
	first, last := s.fullRange(nrTracks)
	vAssert("C17.fullRange.ordered", first <= last)
	if last != 0 || first != 0 {
		if q >= first && q <= last {
			vAssert("C17.fullRange.every-number-complete", vCnt(s, q) >= int(nrTracks))
		}
		if q > last {
			vAssert("C17.fullRange.last-is-newest-complete", vCnt(s, q) < int(nrTracks))
		}
	}
	vReach("C17.fullRange.end")
}

func vH_C17_counters_newFullCounter() {
	s := vMkCounters(vW)
	vAssume(vCountersInv(s, vW))
	nrTracks := uint32(vInt("nrTracks", 1, 3))
	maxSeq := uint32(vInt("maxSeq", 0, 1<<20))
	r := s.newFullCounter(nrTracks, maxSeq)
	if r != 0 {
		vAssert("C17.newFullCounter.is-newer", r > maxSeq)
		vAssert("C17.newFullCounter.is-complete", vCnt(s, r) >= int(nrTracks))
	}
	vReach("C17.newFullCounter.end")
}
