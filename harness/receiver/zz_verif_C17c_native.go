//go:build verif

package app

import (
	"os"

	m "github.com/Eyevinn/dash-mpd/mpd"
	"github.com/Eyevinn/mp4ff/mp4"
)

// native side of vH_C17_startup_detection: a channel with a real (minimal) MPD, a real init segment for the master
// track and a temporary directory for the MPD the channel writes when it tunes in.
func vMkStartupChannel(ts uint32, tsbd int) *channel {
	dir, err := os.MkdirTemp("", "verifC17c")
	if err != nil {
		panic(err)
	}
	init := mp4.CreateEmptyInit()
	init.AddEmptyTrack(ts, "video", "und")
	mpd := m.NewMPD("dynamic")
	p := m.NewPeriod()
	as := m.NewAdaptationSet()
	as.ContentType = "video"
	as.SegmentTemplate = m.NewSegmentTemplate()
	as.SegmentTemplate.Timescale = m.Ptr(ts)
	rep := m.NewRepresentation()
	rep.Id = "video"
	as.AppendRepresentation(rep)
	p.AppendAdaptationSet(as)
	mpd.AppendPeriod(p)
	return &channel{name: "chA", dir: dir, mpd: mpd,
		trDatas:      map[string]*trData{"video": {name: "video", contentType: "video", init: init, timeScaleIn: ts, timeScaleOut: ts}},
		masterTrName: "video", timeShiftBufferDepthS: uint32(tsbd), repsCfg: map[string]RepresentationConfig{},
		segTimesGen: newSegmentTimelineGenerator(dir, initialSegmentsWindow)}
}
