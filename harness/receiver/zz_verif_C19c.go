//go:build verif

package app

import (
	m "github.com/Eyevinn/dash-mpd/mpd"
	"github.com/Eyevinn/mp4ff/mp4"
)

// C19 (track registration): two tracks of the same channel send their init segments at the same time. Each request
// runs channel.addInitDataAndUpdateTimescale, which writes the channel's start time and availabilityStartTime,
// registers the track and adds an AdaptationSet/Representation to the channel's MPD. Everything both requests touch
// must be protected by a common lock; after both (in either order) both tracks are registered and the MPD lists both.

func init() {
	vHarnesses["vH_C19_two_inits_lockset"] = vH_C19_two_inits_lockset
}

func vMkInitSkeleton(sampleEntry mp4.Box, timescale uint32) *mp4.InitSegment {
	stsd := &mp4.StsdBox{Children: []mp4.Box{sampleEntry}}
	trak := &mp4.TrakBox{Mdia: &mp4.MdiaBox{Mdhd: &mp4.MdhdBox{Timescale: timescale, Language: 0x55c4}, Minf: &mp4.MinfBox{Stbl: &mp4.StblBox{Stsd: stsd}}}}
	moov := &mp4.MoovBox{Mvhd: &mp4.MvhdBox{}, Trak: trak, Traks: []*mp4.TrakBox{trak}}
	return &mp4.InitSegment{Moov: moov}
}

func vStubConvertToDateTime(s float64) m.DateTime { return "1970-01-01T00:00:00Z" }

func vH_C19_two_inits_lockset() {
	mpd := m.NewMPD("dynamic")
	mpd.AppendPeriod(m.NewPeriod())
	ch := &channel{name: "chA", dir: "/storage/chA", trDatas: map[string]*trData{}, repsCfg: map[string]RepresentationConfig{}, mpd: mpd}
	order := vConc(vInt("order", 0, 1))
	audio := vMkInitSkeleton(mp4.CreateAudioSampleEntryBox("mp4a", 2, 16, 48000, nil), 48000)
	text := vMkInitSkeleton(&mp4.StppBox{}, 1000)
	sA := stream{chName: "chA", trName: "audio", ext: ".cmfa", mediaType: "audio"}
	sT := stream{chName: "chA", trName: "subs", ext: ".cmft", mediaType: "text"}
	var e1, e2 error
	vThread(1)
	if order == 0 {
		e1 = ch.addInitDataAndUpdateTimescale(sA, audio)
	} else {
		e1 = ch.addInitDataAndUpdateTimescale(sT, text)
	}
	vThread(2)
	if order == 0 {
		e2 = ch.addInitDataAndUpdateTimescale(sT, text)
	} else {
		e2 = ch.addInitDataAndUpdateTimescale(sA, audio)
	}
	vThread(0)
	vAssert("C19.inits.both-accepted", e1 == nil && e2 == nil)
	vAssert("C19.inits.both-tracks-registered", len(ch.trDatas) == 2 && ch.trDatas["audio"] != nil && ch.trDatas["subs"] != nil)
	as := ch.mpd.Periods[0].AdaptationSets
	vAssert("C19.inits.one-adaptation-set-per-track", len(as) == 2)
	if len(as) == 2 {
		vAssert("C19.inits.each-has-its-representation", len(as[0].Representations) == 1 && len(as[1].Representations) == 1 &&
			as[0].Representations[0].Id != as[1].Representations[0].Id)
	}
	vReach("C19.inits.end")
}
