//go:build verif

package app

import (
	"context"
	"io"
	"net/http"
	"net/url"

	"github.com/Eyevinn/mp4ff/bits"
	"github.com/Eyevinn/mp4ff/mp4"
)

// C19 — the ingest receiver tolerates concurrent uploads (the part that lock discipline can decide).
//
// (1) vH_C19_first_uploads_interleaved: the upload handler finds-or-creates the channel with the call sequence
//     GetChannel -> (missing) AddChannel -> GetChannel. Two first uploads for the same new channel run that sequence
//     concurrently; every interleaving of the two call sequences (the calls themselves are atomic: ChannelMgr takes
//     its lock, checked by the discipline below) must end with ONE channel object that both requests use.
// (2) vH_C19_two_uploads_lockset: two uploads (different tracks of one new channel) through the real
//     SegmentHandlerFunc as logical threads: every access to memory both can reach (Receiver.streams, the channel
//     table, the channel's fields) must happen under a common lock when one of them writes.
//
// Stubs: path matching (regular expressions), newChannel (starts a goroutine, builds the MPD), directory creation and
// the original-init lookup (file system). The request body is empty, so the chunk parser makes no callback.

func init() {
	vHarnesses["vH_C19_first_uploads_interleaved"] = vH_C19_first_uploads_interleaved
	vHarnesses["vH_C19_two_uploads_lockset"] = vH_C19_two_uploads_lockset
	vHarnesses["vH_C19_two_bodies_lockset"] = vH_C19_two_bodies_lockset
}


// one request's find-or-create sequence, as SegmentHandlerFunc performs it, advanced one call at a time
type vFirstUpload struct {
	step int
	miss bool
	ch   *channel
}

func (u *vFirstUpload) advance(cm *ChannelMgr, name string) {
	switch u.step {
	case 0:
		ch, ok := cm.GetChannel(name)
		u.ch, u.miss = ch, !ok
		if ok {
			u.step = 2 // found: no further calls
		}
	case 1:
		cm.AddChannel(context.Background(), name, "/storage/"+name)
	case 2:
		u.ch, _ = cm.GetChannel(name)
	}
	u.step++
}

func (u *vFirstUpload) done() bool { return u.step >= 3 }

func vH_C19_first_uploads_interleaved() {
	vChannelsCreated = 0
	cm := NewChannelMgr(&Config{}, 60, 0)
	var a, b vFirstUpload
	// any schedule of the (at most) 3+3 calls
	for i := 0; i < 6; i++ {
		if a.done() && b.done() {
			break
		}
		pickA := vBool("sched" + string(rune('0'+i)))
		if b.done() {
			pickA = true
		}
		if a.done() {
			pickA = false
		}
		if pickA {
			vThread(1)
			a.advance(cm, "chA")
		} else {
			vThread(2)
			b.advance(cm, "chA")
		}
		vThread(0)
	}
	vAssert("C19.first.both-have-a-channel", a.ch != nil && b.ch != nil)
	vAssert("C19.first.same-channel-object", a.ch == b.ch)
	final, ok := cm.GetChannel("chA")
	vAssert("C19.first.registered-channel-is-the-one-in-use", ok && final == a.ch)
	vReach("C19.first.end")
}





func vH_C19_two_uploads_lockset() {
	vChannelsCreated = 0
	r, err := NewReceiver(context.Background(), &Options{prefix: "/upload", storage: "/storage"}, &Config{})
	vAssert("C19.lockset.receiver-ok", err == nil)
	tracks := [2]string{"video", "audio"}
	exts := [2]string{".cmfv", ".cmfa"}
	var ws [2]*vRecW
	var reqs [2]*http.Request
	for i := 0; i < 2; i++ {
		ws[i] = &vRecW{hdr: http.Header{}}
		reqs[i] = &http.Request{Method: "PUT", URL: &url.URL{Path: "/upload/chA/" + tracks[i] + "/init" + exts[i]}, Header: http.Header{}, Body: vEmptyBody{}}
	}
	for i := 0; i < 2; i++ {
		vNextStream = stream{chName: "chA", trName: tracks[i], ext: exts[i], mediaType: tracks[i], chDir: "/storage/chA", trDir: "/storage/chA/" + tracks[i]}
		vThread(i + 1)
		r.SegmentHandlerFunc(ws[i], reqs[i])
		vThread(0)
		vAssert("C19.lockset.answered-200", ws[i].status == 200)
	}
	vAssert("C19.lockset.both-tracks-registered", len(r.streams) == 2)
	vReach("C19.lockset.end")
}

func vStubDecodeFail(sr bits.SliceReader, options ...mp4.Option) (*mp4.File, error) {
	return nil, io.ErrUnexpectedEOF
}

// Two uploads with a body to tracks of a channel that an earlier upload created: what the two requests read from the
// network must not land in memory they share (for example a receive buffer kept per channel).
func vH_C19_two_bodies_lockset() {
	r, err := NewReceiver(context.Background(), &Options{prefix: "/upload", storage: "/storage"}, &Config{})
	vAssert("C19.bodies.receiver-ok", err == nil)
	tracks := [3]string{"video", "video", "audio"}
	exts := [3]string{".cmfv", ".cmfv", ".cmfa"}
	box := []byte{0, 0, 0, 8, 'f', 'r', 'e', 'e'}
	var ws [3]*vRecW
	var reqs [3]*http.Request
	for i := 0; i < 3; i++ {
		ws[i] = &vRecW{hdr: http.Header{}}
		reqs[i] = &http.Request{Method: "PUT", URL: &url.URL{Path: "/upload/chA/" + tracks[i] + "/1" + exts[i]}, Header: http.Header{}, Body: &vEnvBody{data: box}}
	}
	for i := 0; i < 3; i++ {
		vNextStream = stream{chName: "chA", trName: tracks[i], ext: exts[i], mediaType: tracks[i], chDir: "/storage/chA", trDir: "/storage/chA/" + tracks[i]}
		vThread(i) // the first upload happened earlier (thread 0: not part of the race), the other two overlap
		r.SegmentHandlerFunc(ws[i], reqs[i])
		vThread(0)
		vAssert("C19.bodies.answered", ws[i].status != 0)
	}
	vReach("C19.bodies.end")
}
