//go:build verif

package app

import (
	"context"
	"io"
	"net/http"
)

// shared pieces of the receiver harnesses (C17 upload glue, C19)

var vChannelsCreated int

func vStubNewChannel(ctx context.Context, chCfg ChannelConfig, chDir string) *channel {
	vChannelsCreated++
	return &channel{name: chCfg.Name, dir: chDir, trDatas: make(map[string]*trData), repsCfg: make(map[string]RepresentationConfig),
		authUser: chCfg.AuthUser, authPswd: chCfg.AuthPswd}
}

type vEmptyBody struct{}

func (vEmptyBody) Read(p []byte) (int, error) { return 0, io.EOF }
func (vEmptyBody) Close() error               { return nil }

// vEnvBody is a request body with content: the transport (acting for the request's goroutine) stores the bytes into
// the buffer the handler hands it, one by one, so that the shared-access check sees these writes.
type vEnvBody struct {
	data []byte
	pos  int
}

func (b *vEnvBody) Read(p []byte) (int, error) {
	if b.pos >= len(b.data) {
		return 0, io.EOF
	}
	n := 0
	for n < len(p) && b.pos < len(b.data) {
		p[n] = b.data[b.pos]
		n++
		b.pos++
	}
	return n, nil
}
func (b *vEnvBody) Close() error { return nil }

type vRecW struct {
	hdr    http.Header
	status int
}

func (w *vRecW) Header() http.Header         { return w.hdr }
func (w *vRecW) Write(b []byte) (int, error) { return len(b), nil }
func (w *vRecW) WriteHeader(s int)           { w.status = s }

var vNextStream stream

func vStubFindStreamMatch(storagePath, path string) (stream, bool) { return vNextStream, true }
func vStubMatchMPD(path string) (string, bool)                       { return "", false }
func vStubMkdirAll(path string, perm uint32) error                   { return nil }
func vStubHeaderGetC19(h http.Header, key string) string            { return "" }

func vStubHTTPErrorC19(w http.ResponseWriter, msg string, code int) { w.WriteHeader(code) }
