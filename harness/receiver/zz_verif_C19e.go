//go:build verif

package app

import (
	m "github.com/Eyevinn/dash-mpd/mpd"
	"github.com/Eyevinn/mp4ff/mp4"
)

// C19 (MPD of a channel): a request goroutine registers a further track (addInitDataAndUpdateTimescale: new
// AdaptationSet / Representation in ch.mpd) while the channel goroutine tunes the channel in and updates the same MPD
// (derived bitrates and frame rates, SegmentTemplate duration and start number, MPD written to disk).

func init() {
	vHarnesses["vH_C19_init_vs_channel_mpd_lockset"] = vH_C19_init_vs_channel_mpd_lockset
}

// under symbolic execution: channel with an MPD skeleton and an init skeleton for the master track
func vStubMkTuneChannel(ts uint32, tsbd int) *channel {
	mpd := m.NewMPD("dynamic")
	p := m.NewPeriod()
	as := m.NewAdaptationSet()
	as.ContentType = "video"
	as.SegmentTemplate = m.NewSegmentTemplate()
	as.SegmentTemplate.Timescale = m.Ptr(ts)
	rep := m.NewRepresentation()
	rep.Id = "video"
	as.AppendRepresentation(rep)
	p.AppendAdaptationSet(as)
	mpd.AppendPeriod(p)
	init := vMkInitSkeleton(&mp4.VisualSampleEntryBox{}, ts)
	return &channel{name: "chA", dir: "/storage/chA", mpd: mpd,
		trDatas:      map[string]*trData{"video": {name: "video", contentType: "video", init: init, timeScaleIn: ts, timeScaleOut: ts}},
		masterTrName: "video", timeShiftBufferDepthS: uint32(tsbd), repsCfg: map[string]RepresentationConfig{},
		segTimesGen: newSegmentTimelineGenerator("/storage/chA", initialSegmentsWindow)}
}

func vH_C19_init_vs_channel_mpd_lockset() {
	ch := vMkStartupChannel(90000, 10)
	const d = 180000
	ch.receivedSegData(recSegData{name: "video", seqNr: 7, dts: 7 * d, dur: d, totDur: d, totSize: 1000, nrSamples: 60, chunkNr: 1, isComplete: true})
	text := vMkInitSkeleton(&mp4.StppBox{}, 1000)
	sT := stream{chName: "chA", trName: "subs", ext: ".cmft", mediaType: "text"}
	// both orders: the track may register just before or just after the channel tunes in (in the first case it has
	// no segment yet when bitrates and frame rates are derived)
	order := vConc(vInt("order", 0, 1))
	var err error
	if order == 1 {
		vThread(2)
		err = ch.addInitDataAndUpdateTimescale(sT, text)
	}
	vThread(1)
	ch.receivedSegData(recSegData{name: "video", seqNr: 8, dts: 8 * d, dur: d, totDur: d, totSize: 1000, nrSamples: 60, chunkNr: 1, isComplete: true})
	if order == 0 {
		vThread(2)
		err = ch.addInitDataAndUpdateTimescale(sT, text)
	}
	vThread(0)
	vAssert("C19.mpd.tuned-in", ch.masterSegDuration == d)
	vAssert("C19.mpd.track-accepted", err == nil)
	vAssert("C19.mpd.both-in-mpd", len(ch.mpd.Periods[0].AdaptationSets) == 2)
	vReach("C19.mpd.end")
}
