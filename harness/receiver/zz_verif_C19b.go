//go:build verif

package app

import (
	"context"
	"net/http"
	"net/url"

	"github.com/Eyevinn/mp4ff/mp4"
)

// C19 (track table): while one request registers a new track of a channel (addTrData, under the channel lock), another
// request's media upload for an existing track looks its track data up in the chunk-parser callback. Both touch
// channel.trDatas; the shared-access discipline requires a common lock.

func init() {
	vHarnesses["vH_C19_track_table_lockset"] = vH_C19_track_table_lockset
}

func vH_C19_track_table_lockset() {
	vDecSeqNr, vDecTime, vDecSamples = 7, 0, 3
	vCreated, vRemoved = nil, nil
	storage := vUploadSetup(7, 0)
	r, err := NewReceiver(context.Background(), &Options{prefix: "/upload", storage: storage}, &Config{})
	vAssert("C19.tracks.receiver-ok", err == nil)
	init := &mp4.InitSegment{Moov: &mp4.MoovBox{Mvex: &mp4.MvexBox{Trex: &mp4.TrexBox{DefaultSampleDuration: 1000}}}}
	ch := &channel{name: "chA", dir: storage + "/chA", trDatas: map[string]*trData{"video": {name: "video", contentType: "video", init: init, timeScaleIn: 90000, timeScaleOut: 90000}},
		repsCfg: map[string]RepresentationConfig{}, recSegCh: make(chan recSegData, 8)}
	r.channelMgr.channels["chA"] = ch
	vNextStream = stream{chName: "chA", trName: "video", ext: ".cmfv", mediaType: "video", chDir: storage + "/chA", trDir: storage + "/chA/video"}
	r.streams[vNextStream.id()] = vNextStream
	body := vMkUploadBody(7, 0)
	w := &vRecW{hdr: http.Header{}}
	req := &http.Request{Method: "PUT", URL: &url.URL{Path: "/upload/chA/video/seg.cmfv"}, Header: http.Header{}, Body: &vEnvBody{data: body}}
	// request 1: a new (audio) track registers itself
	vThread(1)
	ch.addTrData(&trData{name: "audio", contentType: "audio", timeScaleIn: 48000, timeScaleOut: 48000})
	// request 2: a media segment of the video track
	vThread(2)
	r.SegmentHandlerFunc(w, req)
	vThread(0)
	vAssert("C19.tracks.answered-200", w.status == 200)
	vAssert("C19.tracks.both-registered", len(ch.trDatas) == 2)
	vReach("C19.tracks.end")
}
