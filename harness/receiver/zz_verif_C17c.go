//go:build verif

package app


// C17 (start-up detection): the real channel.receivedSegData for the first two complete segments of the master track:
// once two consecutive segments of equal duration have arrived the channel is tuned in: master segment duration and
// timescale are those of the track, the sequence-number / time shifts put segment numbers on the grid
// number = time / duration, and the buffer window follows from timeShiftBufferDepth:
// maxNrBufSegs = floor(tsbd * timescale / segmentDuration) + 2 segments are kept on disk, the timeline generator works
// with a window of one less - for whole-second and fractional segment durations alike.
// MPD writing, bitrate / frame-rate derivation are stubbed (file system, init-segment parsing).

func init() {
	vHarnesses["vH_C17_startup_detection"] = vH_C17_startup_detection
}

var vC17Timescales = [4]uint32{90000, 48000, 12800, 1000}
var vC17DurMS = [5]int{500, 1920, 2000, 3840, 6000}

// under symbolic execution: the fields receivedSegData works with (natively a channel with a real MPD and init segment)
func vStubMkStartupChannel(ts uint32, tsbd int) *channel {
	return &channel{name: "chA", trDatas: map[string]*trData{"video": {name: "video", contentType: "video", timeScaleIn: ts, timeScaleOut: ts}},
		masterTrName: "video", timeShiftBufferDepthS: uint32(tsbd), repsCfg: map[string]RepresentationConfig{},
		segTimesGen: newSegmentTimelineGenerator("/storage/chA", initialSegmentsWindow)}
}

func vH_C17_startup_detection() {
	ts := vC17Timescales[vConc(vInt("tsIdx", 0, 3))]
	// segment duration from a table (whole and fractional seconds), in ticks of the track timescale
	d := vC17DurMS[vConc(vInt("durIdx", 0, len(vC17DurMS)-1))] * int(ts) / 1000
	tsbd := vInt("tsbd", 1, 30)
	seq0 := vInt("seq0", 0, 1<<30)
	t0 := vInt("t0", 0, 1<<40)
	ch := vMkStartupChannel(ts, tsbd)
	ch.receivedSegData(recSegData{name: "video", seqNr: uint32(seq0), dts: uint64(t0), dur: uint32(d), totDur: uint32(d), chunkNr: 1, isComplete: true})
	vAssert("C17.startup.not-tuned-in-after-one-segment", ch.masterSegDuration == 0)
	ch.receivedSegData(recSegData{name: "video", seqNr: uint32(seq0 + 1), dts: uint64(t0 + d), dur: uint32(d), totDur: uint32(d), chunkNr: 1, isComplete: true})
	vAssert("C17.startup.tuned-in-after-two-equal-consecutive-segments", int(ch.masterSegDuration) == d && ch.masterTimescale == ts)
	if int(ch.masterSegDuration) != d {
		return
	}
	// numbers on the grid: (time + timeShift) / duration == number + seqNrShift for the first segment
	vAssert("C17.startup.time-shift-range", ch.masterTimeShift >= 0 && int(ch.masterTimeShift) < d)
	vAssert("C17.startup.shifted-time-on-grid", (t0+int(ch.masterTimeShift))%d == 0)
	vAssert("C17.startup.number-is-time-over-duration", (t0+int(ch.masterTimeShift))/d == seq0+int(ch.masterSeqNrShift))
	// the window implied by timeShiftBufferDepth
	vAssert("C17.startup.stored-window", int(ch.maxNrBufSegs) == tsbd*int(ts)/d+2)
	vAssert("C17.startup.timeline-window", int(ch.segTimesGen.windowSize) == tsbd*int(ts)/d+1)
	vAssert("C17.startup.generator-started", ch.segTimesGen._started && ch.segTimesGen._shifted == (ch.masterTimeShift != 0 || ch.masterSeqNrShift != 0))
	vReach("C17.startup.end")
}
