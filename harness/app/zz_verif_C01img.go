//go:build verif

package app

import (
	"github.com/Eyevinn/mp4ff/mp4"
)

// C01 (stpp with embedded images): an stpp sample may consist of the TTML document followed by image sub-samples
// described by a subs box. After the time shift the TTML may have a different length; the sub-sample sizes must
// still add up to the sample size and to the mdat payload, the image bytes must be the VoD bytes, and the TTML
// timestamps move by the decode-time shift. Under symbolic execution shiftTTMLTimestamps is replaced by a stub
// that keeps the document's length or grows it by 8 bytes; natively the real function runs on timestamps without fraction (which
// grow by ".000") when grow > 0 and on timestamps with fraction (same length) when grow == 0.

func init() {
	vHarnesses["vH_C01_stpp_image"] = vH_C01_stpp_image
}

var vStppData []byte
var vStppGrow int

func vStubShiftTTMLGrow(data []byte, timeShiftMS uint64) ([]byte, error) {
	vLastShiftMS = timeShiftMS
	out := make([]byte, 0, len(data)+vStppGrow)
	out = append(out, data...)
	for i := 0; i < vStppGrow; i++ {
		out = append(out, '.')
	}
	return out, nil
}

func vStubGetFullSamplesStppImg(f *mp4.Fragment, trex *mp4.TrexBox) ([]mp4.FullSample, error) {
	return []mp4.FullSample{{Data: vStppData}}, nil
}

func vStubMkStppImgSegment(tfdt uint64, imgLen int, grows bool) *mp4.MediaSegment {
	seg := vStubMkStppSegment(tfdt)
	ttml := []byte{'<', 't', 't', '>'}
	data := append([]byte{}, ttml...)
	for i := 0; i < imgLen; i++ {
		data = append(data, byte(0x80+i))
	}
	vStppData = data
	traf := seg.Fragments[0].Moof.Traf
	traf.Trun.Flags |= mp4.TrunSampleSizePresentFlag
	traf.Trun.Samples[0].Size = uint32(len(data))
	subs := &mp4.SubsBox{Entries: []mp4.SubsEntry{{SampleDelta: 1, SubSamples: []mp4.SubsSample{{SubsampleSize: uint32(len(ttml))}, {SubsampleSize: uint32(imgLen)}}}}}
	traf.Children = append(traf.Children, subs)
	return seg
}

func vStppSubs(seg *mp4.MediaSegment) *mp4.SubsBox {
	for _, c := range seg.Fragments[0].Moof.Traf.Children {
		if s, ok := c.(*mp4.SubsBox); ok {
			return s
		}
	}
	return nil
}

func vH_C01_stpp_image() {
	tsTable := [3]int{1000, 48000, 90000}
	ts := tsTable[vConc(vInt("tsIdx", 0, 2))]
	shiftMS := vInt("shiftMS", 0, 1<<40)
	vAssume((shiftMS*ts)%1000 == 0)
	shift := shiftMS * ts / 1000
	tfdt := vInt("tfdt", 0, 1<<20)
	nr := vInt("nr", 0, 1<<31)
	imgLen := vConc(vInt("imgLen", 1, 4))
	// the document keeps its length (timestamps with fraction) or grows by 8 bytes (two timestamps gain ".000"),
	// exactly what the native side does, so that engine and native runs agree byte for byte
	vStppGrow = [2]int{0, 8}[vConc(vInt("growIdx", 0, 1))]
	seg := vMkStppImgSegment(uint64(tfdt), imgLen, vStppGrow > 0)
	subs := vStppSubs(seg)
	vAssert("C01.stppimg.has-subs", subs != nil && len(subs.Entries) == 1 && len(subs.Entries[0].SubSamples) == 2)
	if subs == nil {
		return
	}
	oldTTML := int(subs.Entries[0].SubSamples[0].SubsampleSize)
	err := shiftStppTimes(seg, uint32(ts), uint64(shift), uint32(nr))
	vAssert("C01.stppimg.ok", err == nil)
	if err != nil {
		return
	}
	f := seg.Fragments[0]
	payload := f.Mdat.Data
	ss := subs.Entries[0].SubSamples
	vAssert("C01.stppimg.sequence-number", int(f.Moof.Mfhd.SequenceNumber) == nr)
	vAssert("C01.stppimg.decode-time", int(f.Moof.Traf.Tfdt.BaseMediaDecodeTime()) == tfdt+shift)
	vAssert("C01.stppimg.subsamples-add-up-to-payload", int(ss[0].SubsampleSize)+int(ss[1].SubsampleSize) == len(payload))
	vAssert("C01.stppimg.sample-size-is-payload", int(f.Moof.Traf.Trun.Samples[0].Size) == len(payload))
	vAssert("C01.stppimg.image-size-unchanged", int(ss[1].SubsampleSize) == imgLen)
	vAssert("C01.stppimg.ttml-not-shorter", int(ss[0].SubsampleSize) >= oldTTML)
	okImg := len(payload) >= imgLen
	if okImg {
		for i := 0; i < imgLen; i++ {
			if payload[len(payload)-imgLen+i] != byte(0x80+i) {
				okImg = false
			}
		}
	}
	vAssert("C01.stppimg.image-bytes-unchanged", okImg)
	vAssert("C01.stppimg.ttml-shift-equals-decode-time-shift", vStppShiftMSOf(seg) == shiftMS)
	vReach("C01.stppimg.end")
}
