//go:build verif

package app

// C04 — each segment goes too-early -> available -> gone at exactly the right instants.

func init() {
	vHarnesses["vH_C04_nr_testpic2s_V300_ato0"] = vH_C04_nr_testpic2s_V300_ato0
	vHarnesses["vH_C04_nr_testpic2s_V300_atoInf"] = vH_C04_nr_testpic2s_V300_atoInf
	vHarnesses["vH_C04_nr_testpic2s_V300_atoFrac"] = vH_C04_nr_testpic2s_V300_atoFrac
	vHarnesses["vH_C04_time_testpic2s_V300_ato0"] = vH_C04_time_testpic2s_V300_ato0
	vHarnesses["vH_C04_nr_wave2997_ato0"] = vH_C04_nr_wave2997_ato0
	vHarnesses["vH_C04_time_wave2997_ato0"] = vH_C04_time_wave2997_ato0
	vHarnesses["vH_C04_nr_alt_V300_ato0"] = vH_C04_nr_alt_V300_ato0
	vHarnesses["vH_C04_time_alt_V300_ato0"] = vH_C04_time_alt_V300_ato0
	vHarnesses["vH_C04_nr_syn_irregular3_ato0"] = vH_C04_nr_syn_irregular3_ato0
	vHarnesses["vH_C04_nr_syn_subsecond_atoFrac"] = vH_C04_nr_syn_subsecond_atoFrac
}

func vH_C04_nr_testpic2s_V300_ato0()    { vC04(vAsset_testpic_2s(), "V300", 0, 0) }
func vH_C04_nr_testpic2s_V300_atoInf()  { vC04(vAsset_testpic_2s(), "V300", 0, 1) }
func vH_C04_nr_testpic2s_V300_atoFrac() { vC04(vAsset_testpic_2s(), "V300", 0, 2) }
func vH_C04_time_testpic2s_V300_ato0()  { vC04(vAsset_testpic_2s(), "V300", 1, 0) }
func vH_C04_nr_wave2997_ato0() {
	vC04(vAsset_WAVE_vectors_cfhd_sets_14_985_29_97_59_94_t1_2022_10_17(), "1", 0, 0)
}
func vH_C04_time_wave2997_ato0() {
	vC04(vAsset_WAVE_vectors_cfhd_sets_14_985_29_97_59_94_t1_2022_10_17(), "1", 1, 0)
}
func vH_C04_nr_alt_V300_ato0()         { vC04(vAsset_testpic_alt_seg_dur_stl(), "V300", 0, 0) }
func vH_C04_time_alt_V300_ato0()       { vC04(vAsset_testpic_alt_seg_dur_stl(), "V300", 1, 0) }
func vH_C04_nr_syn_irregular3_ato0()   { vC04(vAsset_syn_irregular3(), "V1", 0, 0) }
func vH_C04_nr_syn_subsecond_atoFrac() { vC04(vAsset_syn_subsecond(), "V1", 0, 2) }

// mode: 0 = by number, 1 = by time.  atoMode: 0 = ato 0, 1 = +Inf, 2 = fractional (1 ms .. segDur-1 ms).
func vC04(a *asset, repID string, mode, atoMode int) {
	rep := a.Reps[repID]
	ts := rep.MediaTimescale
	startNr := vInt("startNr", 0, 1<<20)
	startS := vInt("startS", 0, 1<<32-1)
	tsbd := vInt("tsbd", 0, 172800)
	n := vInt("n", 0, 1<<31-1)
	now1 := vInt("now1", 0, 1<<42)
	now2 := vInt("now2", 0, 1<<42)
	vAssume(now1 <= now2)
	cfg := vCfg(startS, startNr, tsbd)
	atoMS := 0
	switch atoMode {
	case 1:
		cfg.AvailabilityTimeOffsetS = vInf()
	case 2:
		atoMS = vInt("atoMS", 1, a.SegmentDurMS-1)
		cfg.AvailabilityTimeOffsetS = float64(atoMS) / 1000.0
	}
	if mode == 1 {
		cfg.SegTimelineFlag = true
	}

	var e1, e2 error
	if mode == 0 {
		nr := uint32(startNr + n)
		_, e1 = findSegMetaFromNr(a, rep, nr, cfg, now1)
		_, e2 = findSegMetaFromNr(a, rep, nr, cfg, now2)
	} else {
		t := uint64(vSegStartTicks(a, rep, n))
		_, e1 = findSegMetaFromTime(a, rep, t, cfg, now1)
		_, e2 = findSegMetaFromTime(a, rep, t, cfg, now2)
	}
	p1, p2 := vPhase(e1), vPhase(e2)
	vAssert("C04.phase-known-1", p1 <= 2)
	vAssert("C04.phase-known-2", p2 <= 2)
	vAssert("C04.monotone", p1 <= p2)

	// Exact availability instant A = AST + segment end - ato, compared by cross-multiplication:
	// now >= A  <=>  (now1 - 1000*startS + atoMS) * ts >= 1000 * endTicks
	endTicks := vSegEndTicks(a, rep, n)
	lhs := (now1 - 1000*startS + atoMS) * ts
	rhs := 1000 * endTicks
	switch atoMode {
	case 1:
		vAssert("C04.inf-always-available", p1 == 1)
	case 0:
		if lhs >= rhs {
			vAssert("C04.available-at-A", p1 != 0)
		} else {
			vAssert("C04.too-early-before-A", p1 == 0)
		}
	case 2:
		// 1 ms slack for fractional offsets (the real code is off by < 1 ms at rare boundaries, DESIGN 3.3)
		if lhs >= rhs+ts {
			vAssert("C04.available-at-A+1ms", p1 != 0)
		}
		if lhs+ts <= rhs {
			vAssert("C04.too-early-before-A-1ms", p1 == 0)
		}
	}
	if atoMode != 1 {
		// stays available for at least timeShiftBufferDepth after A
		if lhs <= rhs+1000*tsbd*ts {
			vAssert("C04.not-gone-within-tsbd", p1 != 2)
		}
		if p1 == 0 {
			// the 425 body states the remaining milliseconds: |deltaMS - (A - now)| <= 1 ms
			d := vDeltaMS(e1)
			vAssert("C04.delta-lower", (d+1)*ts >= rhs-lhs)
			vAssert("C04.delta-upper", (d-1)*ts <= rhs-lhs)
			if atoMode == 0 && (rhs-lhs)%ts == 0 {
				// the remaining time is a whole number of milliseconds: the body states exactly that number
				vAssert("C04.delta-exact", d*ts == rhs-lhs)
			}
		}
	}
	vReach("C04.end")
}
