//go:build verif

package app

import (
	"fmt"
	"hash/crc32"
	"os"

	"github.com/Eyevinn/mp4ff/mp4"
)

// native side of vH_C03_frames_*: frames are identified by the CRC-32 of their payload

func vFrameTags(seg *mp4.MediaSegment, rep *RepData) (tags []int, seqNr, bmdt int) {
	f := seg.Fragments[0]
	ss, err := f.GetFullSamples(rep.initSeg.Moov.Mvex.Trex)
	if err != nil {
		panic(err)
	}
	for _, s := range ss {
		tags = append(tags, int(crc32.ChecksumIEEE(s.Data)))
	}
	return tags, int(f.Moof.Mfhd.SequenceNumber), int(f.Moof.Traf.Tfdt.BaseMediaDecodeTime())
}

var vVodTagCache = map[string][]int{}

func vVodFrameTag(a *asset, rep *RepData, k, j int) int {
	key := fmt.Sprintf("%s/%s/%d", a.AssetPath, rep.ID, k)
	if _, ok := vVodTagCache[key]; !ok {
		s := rep.Segments[k]
		fh, err := os.Open("testdata/assets/" + a.AssetPath + "/" + replaceTimeAndNr(rep.MediaURI, s.StartTime, s.Nr))
		if err != nil {
			panic(err)
		}
		defer fh.Close()
		f, err := mp4.DecodeFile(fh)
		if err != nil {
			panic(err)
		}
		var tags []int
		for _, fr := range f.Segments[0].Fragments {
			ss, err := fr.GetFullSamples(rep.initSeg.Moov.Mvex.Trex)
			if err != nil {
				panic(err)
			}
			for _, x := range ss {
				tags = append(tags, int(crc32.ChecksumIEEE(x.Data)))
			}
		}
		vVodTagCache[key] = tags
	}
	return vVodTagCache[key][j]
}
