//go:build verif

package app

import (
	m "github.com/Eyevinn/dash-mpd/mpd"
)

// C08 (kernel part) — no accepted parameter value can crash or spin the arithmetic kernels the handlers call.
// The configuration is ARBITRARY (every numeric field unconstrained) except that the real
// verifyAndFillConfig accepted it; segment ids cover the whole int range strconv.Atoi can return.

func init() {
	vHarnesses["vH_C08_lookup_video"] = vH_C08_lookup_video
	vHarnesses["vH_C08_lookup_audio"] = vH_C08_lookup_audio
	vHarnesses["vH_C08_timesubs_ref"] = vH_C08_timesubs_ref
	vHarnesses["vH_C08_periods"] = vH_C08_periods
	vHarnesses["vH_C08_cues"] = vH_C08_cues
	vHarnesses["vH_C08_chunkdur"] = vH_C08_chunkdur
	vHarnesses["vH_C08_mpd_timeline"] = vH_C08_mpd_timeline
	vHarnesses["vH_C08_statuscode"] = vH_C08_statuscode
}

const vBig = 1 << 40

var vCycleTable = [6]int{1, 2, 3, 30, 86400, 1<<31 - 1}

var vCueTable = [5]int{1000, 1001, 1999, 2000, 60000}

var vPPHTable = [10]int{1, 2, 7, 450, 1799, 1800, 1801, 2400, 3599, 3600}

// vArbitraryCfg: every numeric URL parameter arbitrary, pointers nil or set, accepted by the real validator.
func vArbitraryCfg(now int) *ResponseConfig { return vArbitraryCfgOpt(now, true, true) }

// withOptional: nil-or-set choices for optional parameters; withType: the three MPD types.
func vArbitraryCfgOpt(now int, withOptional, withType bool) *ResponseConfig {
	cfg := NewResponseConfig()
	cfg.StartTimeS = vInt("startS", 0, vBig) // start_X / startrel_X: non-negative by construction in processURLCfg? kept >= 0
	cfg.TimeShiftBufferDepthS = Ptr(vInt("tsbd", -vBig, vBig))
	cfg.StartNr = Ptr(vInt("startNr", -vBig, vBig))
	cfg.TimeSubsDurMS = vInt("subsDur", -vBig, vBig)
	cfg.TimeSubsRegion = vInt("subsReg", -vBig, vBig)
	if withOptional {
		if vBool("hasPPH") {
			cfg.PeriodsPerHour = Ptr(vInt("pph", -vBig, vBig))
		}
		if vBool("hasMUP") {
			cfg.MinimumUpdatePeriodS = Ptr(vInt("mup", -vBig, vBig))
		}
		if vBool("hasScte") {
			cfg.SCTE35PerMinute = Ptr(vInt("scte", -vBig, vBig))
		}
	}
	if withType {
		switch vConc(vInt("mpdType", 0, 2)) {
		case 1:
			cfg.SegTimelineFlag = true
		case 2:
			cfg.SegTimelineNrFlag = true
		}
	}
	err := verifyAndFillConfig(cfg, now)
	vAssume(err == nil)
	return cfg
}

func vH_C08_lookup_video() { vC08Lookup("V300") }
func vH_C08_lookup_audio() { vC08Lookup("A48") }

// any segment id, any accepted config, any instant: the lookup returns (no panic)
func vC08Lookup(repID string) {
	a := vAsset_testpic_2s()
	vPrepareRegexps(a)
	rep := a.Reps[repID]
	now := vInt("now1", 0, 1<<42)
	cfg := vArbitraryCfg(now)
	segID := vInt("segID", 0, 1<<62) // the URL pattern only matches digits
	segPart := vSegName(rep.MediaURI, segID)
	vStubRep, vStubSegID = rep, segID
	_, err := findSegMeta(a, cfg, segPart, now)
	vAssert("C08.lookup.returns", err == nil || err != nil)
	vReach("C08.lookup.end")
}

// generated subtitles are addressed through the reference video segment
func vH_C08_timesubs_ref() {
	a := vAsset_testpic_2s()
	now := vInt("now1", 0, 1<<42)
	cfg := vArbitraryCfg(now)
	id := vInt("segID", 0, 1<<62)
	_, err := a.getRefSegMeta(id, cfg, now)
	vAssert("C08.timesubs.returns", err == nil || err != nil)
	vReach("C08.timesubs.end")
}

func vH_C08_periods() {
	a := vAsset_testpic_2s()
	rel := vInt("rel1", 0, 1<<41)
	// (1) the validator accepts exactly 1..3600 periods per hour
	probe := vArbitraryCfgOpt(rel, false, false)
	pphAny := vInt("pph", -vBig, vBig)
	probe.PeriodsPerHour = Ptr(pphAny)
	if verifyAndFillConfig(probe, rel) == nil {
		vAssert("C08.periods.accepted-range", pphAny >= 1 && pphAny <= 3600)
	}
	// (2) splitPeriod for accepted values at and around the boundaries of the period-duration arithmetic
	cfg := vArbitraryCfgOpt(rel, false, false)
	cfg.PeriodsPerHour = Ptr(vPPHTable[vConc(vInt("pphIdx", 0, len(vPPHTable)-1))])
	vAssume(*cfg.TimeShiftBufferDepthS <= 3)
	cfg.SegTimelineFlag, cfg.SegTimelineNrFlag = true, false
	vAssume(verifyAndFillConfig(cfg, rel) == nil)
	now := 1000*cfg.StartTimeS + rel
	tsbd := *cfg.TimeShiftBufferDepthS
	wt := calcWrapTimes(a, cfg, now, *m.Seconds2DurPtr(tsbd))
	se := a.generateTimelineEntries("V300", wt, 0)
	as := &m.AdaptationSetType{}
	as.ContentType = "video"
	as.SegmentTemplate = &m.SegmentTemplateType{}
	_ = adjustAdaptationSetForTimelineTime(se, as)
	mpd := &m.MPD{}
	period := &m.Period{}
	period.AdaptationSets = []*m.AdaptationSetType{as}
	mpd.Periods = []*m.Period{period}
	err := splitPeriod(mpd, a, cfg, wt)
	vAssert("C08.periods.returns", err == nil || err != nil)
	vReach("C08.periods.end")
}

func vH_C08_cues() {
	cfg := vArbitraryCfgOpt(0, false, false)
	// the validator only lets positive cue durations through
	vAssert("C08.cues.accepted-positive", cfg.TimeSubsDurMS >= 1)
	// arbitrary durations 1..999 ms; longer ones at concrete values (the cue grid period makes the loop bounds non-linear)
	if cfg.TimeSubsDurMS > 999 {
		cfg.TimeSubsDurMS = vCueTable[vConc(vInt("cueIdx", 0, len(vCueTable)-1))]
	}
	segStart := vInt("segStart", 0, 1<<41)
	segDur := vInt("segDur", 1, 4000)
	cues := calcCueItvls(segStart, segDur, segStart+1000*cfg.StartTimeS, cfg.TimeSubsDurMS)
	vAssert("C08.cues.returns", len(cues) >= 0)
	vReach("C08.cues.end")
}

// chunk duration = segment duration - availabilityTimeOffset: any offset the URL parser accepts
func vH_C08_chunkdur() {
	a := vAsset_testpic_2s()
	rep := a.Reps["V300"]
	cfg := vArbitraryCfgOpt(0, false, false)
	// any finite offset the URL parser can produce (ato_X, X a decimal number with ms resolution), negative ones included
	atoMS := vInt("atoMS", -vBig, vBig)
	cfg.AvailabilityTimeOffsetS = float64(atoMS) / 1000.0
	cfg.AvailabilityTimeCompleteFlag = false
	vAssume(verifyAndFillConfig(cfg, 0) == nil)
	chunkDur := (a.SegmentDurMS - int(cfg.AvailabilityTimeOffsetS*1000)) * int(rep.MediaTimescale) / 1000
	init, seg := vMkSegment([]uint32{3000, 3000, 3000})
	meta := segMeta{newTime: 0, newNr: 1, newDur: 9000, timescale: 90000}
	chunks, err := chunkSegment(init, seg, meta, chunkDur)
	vAssert("C08.chunkdur.returns", err != nil || len(chunks) >= 0)
	vReach("C08.chunkdur.end")
}

// MPD timeline generation under an arbitrary accepted configuration
func vH_C08_mpd_timeline() {
	a := vAsset_testpic_2s()
	rel := vInt("rel1", 0, 1<<41)
	cfg := vArbitraryCfgOpt(rel, false, false)
	vAssume(*cfg.TimeShiftBufferDepthS <= 5)
	now := 1000*cfg.StartTimeS + rel
	wt := calcWrapTimes(a, cfg, now, *m.Seconds2DurPtr(*cfg.TimeShiftBufferDepthS))
	se := a.generateTimelineEntries("V300", wt, 0)
	_ = se.lastNr()
	_ = se.lastTime()
	ae := a.generateTimelineEntriesFromRef(se, "A48")
	vAssert("C08.mpd.returns", len(ae.entries) >= 0)
	vReach("C08.mpd.end")
}

func vH_C08_statuscode() {
	a := vAsset_testpic_2s()
	vPrepareRegexps(a)
	rep := a.Reps["V300"]
	now := vInt("now1", 0, 1<<42)
	cfg := vArbitraryCfgOpt(now, false, true)
	vAssume(*cfg.TimeShiftBufferDepthS <= 60)
	// what ParseSegStatusCodes accepts: 1 <= cycle <= 2^31-1, rsq >= 0
	cfg.SegStatusCodes = []SegStatusCodes{{Cycle: vCycleTable[vConc(vInt("cycleIdx", 0, len(vCycleTable)-1))], Rsq: vInt("rsq", 0, vBig), Code: 404}}
	segID := vInt("segID", 0, 1<<31)
	segPart := vSegName(rep.MediaURI, segID)
	vStubRep, vStubSegID = rep, segID
	_, err := calcStatusCode(cfg, a, segPart, now)
	vAssert("C08.statuscode.returns", err == nil || err != nil)
	vReach("C08.statuscode.end")
}

// The textual side of the status-code configuration: whatever ParseSegStatusCodes accepts (entries built
// from present/absent keys and boundary values) satisfies the ranges calcStatusCode relies on.
func init() { vHarnesses["vH_C08_statuscode_parse"] = vH_C08_statuscode_parse }

var vSCCycle = [7]string{"", "cycle:-1", "cycle:0", "cycle:1", "cycle:30", "cycle:2147483647", "cycle:2147483648"}
var vSCRsq = [4]string{"", "rsq:-1", "rsq:0", "rsq:7"}
var vSCCode = [6]string{"", "code:399", "code:400", "code:404", "code:599", "code:600"}
var vSCRep = [3]string{"", "rep:*", "rep:V300"}

func vSCEntry(i string) string {
	parts := []string{
		vSCCycle[vConc(vInt("cy"+i, 0, len(vSCCycle)-1))],
		vSCRsq[vConc(vInt("rs"+i, 0, len(vSCRsq)-1))],
		vSCCode[vConc(vInt("co"+i, 0, len(vSCCode)-1))],
		vSCRep[vConc(vInt("re"+i, 0, len(vSCRep)-1))],
	}
	out := ""
	for _, p := range parts {
		if p == "" {
			continue
		}
		if out != "" {
			out += ","
		}
		out += p
	}
	return out
}

func vH_C08_statuscode_parse() {
	val := "[{" + vSCEntry("0")
	if vBool("two") {
		// a second, well-formed entry after an arbitrary first one
		val += "},{cycle:10,rsq:1,code:503"
	}
	val += "}]"
	sc := &strConvAccErr{}
	codes := sc.ParseSegStatusCodes("statuscode", val)
	if sc.err != nil {
		vReach("C08.statuscode-parse.rejected")
		return
	}
	for _, c := range codes {
		vAssert("C08.statuscode-parse.cycle-range", c.Cycle >= 1 && c.Cycle <= 1<<31-1)
		vAssert("C08.statuscode-parse.rsq-range", c.Rsq >= 0)
		vAssert("C08.statuscode-parse.code-range", c.Code >= 400 && c.Code <= 599)
	}
	// (vH_C08_statuscode assumes exactly these ranges and shows that calcStatusCode then returns)
	vReach("C08.statuscode-parse.end")
}

// audio (and every non-reference representation) is addressed through the reference representation:
// any number, any start number, default optional parameters, $Number$ addressing
func init() { vHarnesses["vH_C08_lookup_audio_nr"] = vH_C08_lookup_audio_nr }

func vH_C08_lookup_audio_nr() {
	a := vAsset_testpic_2s()
	vPrepareRegexps(a)
	rep := a.Reps["A48"]
	rel := vInt("rel1", 0, 1<<41)
	cfg := vArbitraryCfgOpt(rel, false, false)
	vAssume(*cfg.TimeShiftBufferDepthS <= 60)
	now := 1000*cfg.StartTimeS + rel
	segID := vInt("segID", 0, 1<<62)
	segPart := vSegName(rep.MediaURI, segID)
	vStubRep, vStubSegID = rep, segID
	_, err := findSegMeta(a, cfg, segPart, now)
	vAssert("C08.lookup-audio.returns", err == nil || err != nil)
	vReach("C08.lookup-audio.end")
}
