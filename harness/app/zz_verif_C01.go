//go:build verif

package app

// C01 — looped output is one gap-free, wall-clock-anchored media timeline.
// For every n: number-addressed lookup returns VoD segment n mod N, number startNumber+n, start
// floor(n/N)*loopDur + VoD start; consecutive segments abut (also across the wrap); time addressing
// returns the same segment; a time that is not a segment start is rejected.

func init() {
	vHarnesses["vH_C01_testpic2s_V300"] = vH_C01_testpic2s_V300
	vHarnesses["vH_C01_testpic2s_txt"] = vH_C01_testpic2s_txt
	vHarnesses["vH_C01_testpic2s_thumbs"] = vH_C01_testpic2s_thumbs
	vHarnesses["vH_C01_alt_V300"] = vH_C01_alt_V300
	vHarnesses["vH_C01_wave2997"] = vH_C01_wave2997
	vHarnesses["vH_C01_wave25"] = vH_C01_wave25
	vHarnesses["vH_C01_bbb"] = vH_C01_bbb
	vHarnesses["vH_C01_testpic8s"] = vH_C01_testpic8s
	vHarnesses["vH_C01_testpic6s"] = vH_C01_testpic6s
	vHarnesses["vH_C01_syn_1seg"] = vH_C01_syn_1seg
	vHarnesses["vH_C01_syn_irregular3"] = vH_C01_syn_irregular3
	vHarnesses["vH_C01_syn_subsecond"] = vH_C01_syn_subsecond
	vHarnesses["vH_C01_syn_offsecond"] = vH_C01_syn_offsecond
	vHarnesses["vH_C01_syn_25fps"] = vH_C01_syn_25fps
	vHarnesses["vH_C01_syn_long8"] = vH_C01_syn_long8
}

func vH_C01_testpic2s_V300()   { vC01(vAsset_testpic_2s(), "V300") }
func vH_C01_testpic2s_txt()    { vC01(vAsset_testpic_2s(), "imsc1_txt_sv") }
func vH_C01_testpic2s_thumbs() { vC01(vAsset_testpic_2s(), "thumbs") }
func vH_C01_alt_V300()         { vC01(vAsset_testpic_alt_seg_dur_stl(), "V300") }
func vH_C01_wave2997() {
	vC01(vAsset_WAVE_vectors_cfhd_sets_14_985_29_97_59_94_t1_2022_10_17(), "1")
}
func vH_C01_wave25()         { vC01(vAsset_WAVE_vectors_cfhd_sets_12_5_25_50_t3_2022_10_17(), "1") }
func vH_C01_bbb()            { vC01(vAsset_bbb_hevc_ac3_8s(), "1") }
func vH_C01_testpic8s()      { vC01(vAsset_testpic_8s(), "V300") }
func vH_C01_testpic6s()      { vC01(vAsset_testpic_6s(), "V300") }
func vH_C01_syn_1seg()       { vC01(vAsset_syn_1seg(), "V1") }
func vH_C01_syn_irregular3() { vC01(vAsset_syn_irregular3(), "V1") }
func vH_C01_syn_subsecond()  { vC01(vAsset_syn_subsecond(), "V1") }
func vH_C01_syn_offsecond()  { vC01(vAsset_syn_offsecond(), "V1") }
func vH_C01_syn_25fps()      { vC01(vAsset_syn_25fps(), "V1") }
func vH_C01_syn_long8()      { vC01(vAsset_syn_long8(), "V1") }

func vC01(a *asset, repID string) {
	rep := a.Reps[repID]
	N := len(rep.Segments)
	ts := rep.MediaTimescale
	startNr := vInt("startNr", 0, 1<<20)
	startS := vInt("startS", 0, 1<<32-1)
	n := vInt("n", 0, 1<<31-2)
	cfg := vCfg(startS, startNr, 60)
	cfg.AvailabilityTimeOffsetS = vInf() // always available: isolates the timeline arithmetic (C04 covers timing)
	loopTicks := a.LoopDurMS * ts / 1000
	q, r := n/N, n%N
	seg := rep.Segments[r]

	m1, err1 := findSegMetaFromNr(a, rep, uint32(startNr+n), cfg, 0)
	vAssert("C01.nr.ok", err1 == nil)
	vAssert("C01.nr.newNr", int(m1.newNr) == startNr+n)
	vAssert("C01.nr.origNr", m1.origNr == seg.Nr)
	vAssert("C01.nr.origTime", m1.origTime == seg.StartTime)
	vAssert("C01.nr.newTime", int(m1.newTime) == q*loopTicks+int(seg.StartTime))
	vAssert("C01.nr.newDur", uint64(m1.newDur) == seg.EndTime-seg.StartTime)
	vAssert("C01.nr.origDur", m1.origDur == m1.newDur)
	vAssert("C01.nr.timescale", int(m1.timescale) == ts)
	vAssert("C01.nr.rep", m1.rep == rep)

	// abutment, also across the loop wrap
	m2, err2 := findSegMetaFromNr(a, rep, uint32(startNr+n+1), cfg, 0)
	vAssert("C01.next.ok", err2 == nil)
	vAssert("C01.abut", m1.newTime+uint64(m1.newDur) == m2.newTime)

	// Number == Time addressing
	cfgT := vCfg(startS, startNr, 60)
	cfgT.AvailabilityTimeOffsetS = vInf()
	cfgT.SegTimelineFlag = true
	mt, errT := findSegMetaFromTime(a, rep, m1.newTime, cfgT, 0)
	vAssert("C01.time.ok", errT == nil)
	vAssert("C01.time.same-nr", mt.newNr == m1.newNr)
	vAssert("C01.time.same-newTime", mt.newTime == m1.newTime)
	vAssert("C01.time.same-origTime", mt.origTime == m1.origTime)
	vAssert("C01.time.same-origNr", mt.origNr == m1.origNr)
	vAssert("C01.time.same-dur", mt.newDur == m1.newDur)

	// a time that is not a segment start is rejected
	d := vInt("delta", 1, 1<<40)
	vAssume(uint64(d) < uint64(m1.newDur))
	_, errBad := findSegMetaFromTime(a, rep, m1.newTime+uint64(d), cfgT, 0)
	vAssert("C01.time.non-start-rejected", errBad != nil)
	vReach("C01.end")
}
