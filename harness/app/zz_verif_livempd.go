//go:build verif

package app

import (
	m "github.com/Eyevinn/dash-mpd/mpd"
)

// The whole LiveMPD function (C02/C05 glue): the MPD it returns for an arbitrary instant and configuration
// (start, startNumber, tsbd, MPD type, optional stop time) carries
//   - type/static switch exactly when the stop time has passed, with duration stop-start;
//   - availabilityStartTime, timeShiftBufferDepth, period id/start;
//   - in every AdaptationSet the S list, timescale and startNumber that the (separately verified) timeline
//     kernels give for the window ending at min(now, stop);
//   - the publishTime of the verified publish-time kernel, never later than the request.
// Under symbolic execution getVodMPD is replaced by a constructor generated from the real parser's output
// for the same MPD file, and DateTime formatting by value-carrying opaque strings.

func init() {
	vHarnesses["vH_C05_livempd_time_testpic2s"] = vH_C05_livempd_time_testpic2s
	vHarnesses["vH_C05_livempd_nr_testpic2s"] = vH_C05_livempd_nr_testpic2s
	vHarnesses["vH_C05_livempd_number_testpic2s"] = vH_C05_livempd_number_testpic2s
	vHarnesses["vH_C05_livempd_time_alt"] = vH_C05_livempd_time_alt
}

func vH_C05_livempd_time_testpic2s()   { vLiveMPD(vAsset_testpic_2s(), "Manifest.mpd", 1, 5) }
func vH_C05_livempd_nr_testpic2s()     { vLiveMPD(vAsset_testpic_2s(), "Manifest.mpd", 2, 5) }
func vH_C05_livempd_number_testpic2s() { vLiveMPD(vAsset_testpic_2s(), "Manifest.mpd", 0, 5) }
func vH_C05_livempd_time_alt()         { vLiveMPD(vAsset_testpic_alt_seg_dur_stl(), "Manifest.mpd", 1, 9) }

func vStubGetVodMPD(a *asset, mpdName string) (*m.MPD, error) {
	mpd := vVodMPD(a.AssetPath + "/" + mpdName)
	if mpd == nil {
		return nil, errNotFound
	}
	return mpd, nil
}

func vSameS(x, y []*m.S) bool {
	if len(x) != len(y) {
		return false
	}
	for i := range x {
		if x[i].D != y[i].D || x[i].R != y[i].R {
			return false
		}
		if (x[i].T == nil) != (y[i].T == nil) {
			return false
		}
		if x[i].T != nil && *x[i].T != *y[i].T {
			return false
		}
	}
	return true
}

// mode: 0 = SegmentTemplate $Number$, 1 = SegmentTimeline $Time$, 2 = SegmentTimeline $Number$
func vLiveMPD(a *asset, mpdName string, mode, maxTsbd int) {
	startNr := vInt("startNr", 0, 1<<20)
	startS := vInt("startS", 0, 1<<31)
	tsbd := vInt("tsbd", 0, maxTsbd)
	rel := vInt("rel1", 0, 1<<41)
	now := 1000*startS + rel
	cfg := vCfg(startS, startNr, tsbd)
	switch mode {
	case 1:
		cfg.SegTimelineFlag = true
	case 2:
		cfg.SegTimelineNrFlag = true
	}
	hasStop := vBool("hasStop")
	stopS := 0
	if hasStop {
		stopS = startS + vInt("stopRelS", 1, 1<<31)
		cfg.StopTimeS = Ptr(stopS)
	}
	mpd, err := LiveMPD(a, mpdName, cfg, nil, now)
	vAssert("C05.livempd.ok", err == nil)
	if err != nil {
		return
	}
	endMS := now
	afterStop := hasStop && stopS*1000 < now
	if afterStop {
		endMS = stopS * 1000
	}
	// ---- MPD level ----
	vAssert("C05.livempd.type-set", mpd.Type != nil)
	if afterStop {
		vAssert("C05.livempd.static-after-stop", *mpd.Type == "static")
		vAssert("C05.livempd.static-duration", mpd.MediaPresentationDuration != nil && *mpd.MediaPresentationDuration == *m.Seconds2DurPtr(stopS-startS))
		vAssert("C05.livempd.static-no-live-attributes", mpd.TimeShiftBufferDepth == nil && mpd.MinimumUpdatePeriod == nil)
	} else {
		vAssert("C05.livempd.dynamic-before-stop", *mpd.Type == "dynamic")
		vAssert("C05.livempd.dynamic-no-duration", mpd.MediaPresentationDuration == nil)
		vAssert("C05.livempd.tsbd", mpd.TimeShiftBufferDepth != nil && *mpd.TimeShiftBufferDepth == *m.Seconds2DurPtr(tsbd))
		vAssert("C05.livempd.mup", mpd.MinimumUpdatePeriod != nil && int(*mpd.MinimumUpdatePeriod) == a.SegmentDurMS*1_000_000)
	}
	vAssert("C05.livempd.ast", vDateTimeMS(mpd.AvailabilityStartTime) == 1000*startS)
	vAssert("C05.livempd.one-period", len(mpd.Periods) == 1)
	if len(mpd.Periods) != 1 {
		return
	}
	p := mpd.Periods[0]
	vAssert("C05.livempd.period", p.Id == "P0" && p.Duration == nil && p.Start != nil && *p.Start == 0)

	// ---- the window the timelines must describe ends at min(now, stop) ----
	wt := calcWrapTimes(a, cfg, endMS, *m.Seconds2DurPtr(tsbd))
	videoID := ""
	for _, as := range p.AdaptationSets {
		if as.ContentType == "video" {
			videoID = as.Representations[0].Id
		}
	}
	vAssert("C05.livempd.has-video", videoID != "")
	if videoID == "" {
		return
	}
	refSE := a.generateTimelineEntries(videoID, wt, 0)
	for _, as := range p.AdaptationSets {
		st := as.SegmentTemplate
		vAssert("C05.livempd.template", st != nil)
		if st == nil {
			continue
		}
		vAssert("C05.livempd.no-endNumber", st.EndNumber == nil)
		repID := as.Representations[0].Id
		rep := a.Reps[repID]
		if mode == 0 || as.ContentType == "image" {
			vAssert("C05.livempd.number.startNumber", st.StartNumber != nil && int(*st.StartNumber) == startNr)
			vAssert("C05.livempd.number.no-timeline", st.SegmentTimeline == nil)
			vAssert("C05.livempd.number.duration-present", st.Duration != nil)
			if st.Duration != nil {
				ts := 1 // @timescale defaults to 1
				if st.Timescale != nil {
					ts = int(*st.Timescale)
				}
				// constant-duration assets: @duration/@timescale is the segment duration
				vAssert("C05.livempd.number.duration", int(*st.Duration)*1000 == a.SegmentDurMS*ts)
			}
			continue
		}
		var se segEntries
		switch as.ContentType {
		case "audio":
			se = a.generateTimelineEntriesFromRef(refSE, repID)
		default:
			se = a.generateTimelineEntries(repID, wt, 0)
		}
		vAssert("C05.livempd.timescale", st.Timescale != nil && int(*st.Timescale) == rep.MediaTimescale)
		vAssert("C05.livempd.timeline-present", st.SegmentTimeline != nil)
		if st.SegmentTimeline == nil {
			continue
		}
		vAssert("C05.livempd.timeline-is-window-up-to-min(now,stop)", vSameS(st.SegmentTimeline.S, se.entries))
		vAssert("C05.livempd.no-duration-attr", st.Duration == nil)
		if mode == 1 {
			vAssert("C05.livempd.time.no-startNumber", st.StartNumber == nil)
		} else if se.startNr >= 0 {
			vAssert("C05.livempd.nr.startNumber", st.StartNumber != nil && int(*st.StartNumber) == se.startNr+startNr)
		}
	}
	// ---- publishTime ----
	pub := vDateTimeMS(mpd.PublishTime)
	if mode == 0 {
		vAssert("C05.livempd.number.publishTime-is-ast", pub == 1000*startS)
	} else {
		vAssert("C05.livempd.publishTime", pub == vPubMS(calcPublishTime(cfg, refSE.lsi)))
		vAssert("C05.livempd.publishTime-not-in-future", pub <= now)
	}
	vReach("C05.livempd.end")
}
