//go:build verif

package app

import (
	m "github.com/Eyevinn/dash-mpd/mpd"
)

// The whole LiveMPD function (C02/C05 glue): the MPD it returns for an arbitrary instant and configuration
// (start, startNumber, tsbd, MPD type, optional stop time) carries
//   - type/static switch exactly when the stop time has passed, with duration stop-start;
//   - availabilityStartTime, timeShiftBufferDepth, period id/start;
//   - in every AdaptationSet the S list, timescale and startNumber that the (separately verified) timeline
//     kernels give for the window ending at min(now, stop);
//   - the publishTime of the verified publish-time kernel, never later than the request.
// Under symbolic execution getVodMPD is replaced by a constructor generated from the real parser's output
// for the same MPD file, and DateTime formatting by value-carrying opaque strings.

func init() {
	vHarnesses["vH_C05_livempd_time_testpic2s"] = vH_C05_livempd_time_testpic2s
	vHarnesses["vH_C05_livempd_nr_testpic2s"] = vH_C05_livempd_nr_testpic2s
	vHarnesses["vH_C05_livempd_number_testpic2s"] = vH_C05_livempd_number_testpic2s
	vHarnesses["vH_C05_livempd_time_alt"] = vH_C05_livempd_time_alt
	vHarnesses["vH_C05_livempd_time_subs_patch"] = vH_C05_livempd_time_subs_patch
	vHarnesses["vH_C05_livempd_nr_subs_patch"] = vH_C05_livempd_nr_subs_patch
	vHarnesses["vH_C05_livempd_number_subs"] = vH_C05_livempd_number_subs
	vHarnesses["vH_C05_livempd_number_subs_wave"] = vH_C05_livempd_number_subs_wave
	vHarnesses["vH_C05_livempd_time_subs_wave"] = vH_C05_livempd_time_subs_wave
	vHarnesses["vH_C05_livempd_time_lowlatency"] = vH_C05_livempd_time_lowlatency
	vHarnesses["vH_C05_livempd_time_ato_complete"] = vH_C05_livempd_time_ato_complete
	vHarnesses["vH_C05_livempd_number_lowlatency"] = vH_C05_livempd_number_lowlatency
	vHarnesses["vH_C05_livempd_time_lowlatency_any"] = vH_C05_livempd_time_lowlatency_any
	vHarnesses["vH_C05_livempd_time_thumbs"] = vH_C05_livempd_time_thumbs
	vHarnesses["vH_C05_livempd_time_imsc1"] = vH_C05_livempd_time_imsc1
	vHarnesses["vH_C05_livempd_nr_testpic8s"] = vH_C05_livempd_nr_testpic8s
	vHarnesses["vH_C05_livempd_time_bbb"] = vH_C05_livempd_time_bbb
}

func vH_C05_livempd_time_testpic2s()   { vLiveMPD(vAsset_testpic_2s(), "Manifest.mpd", 1, 5, 0) }
func vH_C05_livempd_nr_testpic2s()     { vLiveMPD(vAsset_testpic_2s(), "Manifest.mpd", 2, 5, 0) }
func vH_C05_livempd_number_testpic2s() { vLiveMPD(vAsset_testpic_2s(), "Manifest.mpd", 0, 5, 0) }
func vH_C05_livempd_time_alt()         { vLiveMPD(vAsset_testpic_alt_seg_dur_stl(), "Manifest.mpd", 1, 9, 0) }

// generated subtitles (stpp + wvtt) and patch location
func vH_C05_livempd_time_subs_patch() {
	vLiveMPD(vAsset_testpic_2s(), "Manifest.mpd", 1, 5, vOptSubs|vOptPatch)
}
func vH_C05_livempd_nr_subs_patch() {
	vLiveMPD(vAsset_testpic_2s(), "Manifest.mpd", 2, 5, vOptSubs|vOptPatch)
}
func vH_C05_livempd_number_subs() { vLiveMPD(vAsset_testpic_2s(), "Manifest.mpd", 0, 5, vOptSubs) }

// the 29.97 fps asset: 2002 ms segments (60060/30000), so that millisecond conversions of the subtitle sets matter
func vH_C05_livempd_number_subs_wave() {
	vLiveMPD(vAsset_WAVE_vectors_cfhd_sets_14_985_29_97_59_94_t1_2022_10_17(), "stream.mpd", 0, 5, vOptSubs)
}
func vH_C05_livempd_time_subs_wave() {
	vLiveMPD(vAsset_WAVE_vectors_cfhd_sets_14_985_29_97_59_94_t1_2022_10_17(), "stream.mpd", 1, 5, vOptSubs)
}

// low-latency: fractional availabilityTimeOffset, chunked (availabilityTimeComplete=false)
func vH_C05_livempd_time_lowlatency() {
	vLiveMPD(vAsset_testpic_2s(), "Manifest.mpd", 1, 5, vOptLL|vOptLLTable)
}
func vH_C05_livempd_time_ato_complete() {
	vLiveMPD(vAsset_testpic_2s(), "Manifest.mpd", 1, 5, vOptAtoComplete)
}
func vH_C05_livempd_number_lowlatency() {
	vLiveMPD(vAsset_testpic_2s(), "Manifest.mpd", 0, 5, vOptLL|vOptLLTable)
}
func vH_C05_livempd_time_lowlatency_any() {
	vLiveMPD(vAsset_testpic_2s(), "Manifest.mpd", 1, 3, vOptLL)
}

// other bundled MPDs: thumbnails (image AdaptationSet), imsc1 text, 8 s segments with sidx
func vH_C05_livempd_time_thumbs()  { vLiveMPD(vAsset_testpic_2s(), "Manifest_thumbs.mpd", 1, 5, 0) }
func vH_C05_livempd_time_imsc1()   { vLiveMPD(vAsset_testpic_2s(), "Manifest_imsc1.mpd", 1, 5, 0) }
func vH_C05_livempd_nr_testpic8s() { vLiveMPD(vAsset_testpic_8s(), "Manifest.mpd", 2, 17, 0) }
func vH_C05_livempd_time_bbb()     { vLiveMPD(vAsset_bbb_hevc_ac3_8s(), "manifest.mpd", 1, 17, 0) }

const (
	vOptSubs  = 1
	vOptPatch = 2
	vOptLL    = 4
	// availabilityTimeOffset from a table of concrete values instead of any millisecond value
	vOptLLTable = 8
	// availabilityTimeOffset with complete segments (ato_X without chunkdur_): the offset applies to the timeline, the
	// publishTime and the advertised attribute alike, availabilityTimeComplete stays true
	vOptAtoComplete = 16
)

var vAtoTable = [6]int{1, 250, 500, 1000, 1500, 1999}
var vAtoTable2 = [2]int{500, 1000}

func vStubQueryEscape(s string) string { return s }

func vStubPatchPublishMS(loc string) int { return vDecIntIn("dt", loc) }

func vStubGetVodMPD(a *asset, mpdName string) (*m.MPD, error) {
	mpd := vVodMPD(a.AssetPath + "/" + mpdName)
	if mpd == nil {
		return nil, errNotFound
	}
	return mpd, nil
}

func vSameS(x, y []*m.S) bool {
	if len(x) != len(y) {
		return false
	}
	for i := range x {
		if x[i].D != y[i].D || x[i].R != y[i].R {
			return false
		}
		if (x[i].T == nil) != (y[i].T == nil) {
			return false
		}
		if x[i].T != nil && *x[i].T != *y[i].T {
			return false
		}
	}
	return true
}

// mode: 0 = SegmentTemplate $Number$, 1 = SegmentTimeline $Time$, 2 = SegmentTimeline $Number$
func vLiveMPD(a *asset, mpdName string, mode, maxTsbd, opt int) {
	startNr := vInt("startNr", 0, 1<<20)
	startS := vInt("startS", 0, 1<<31)
	tsbd := vInt("tsbd", 0, maxTsbd)
	rel := vInt("rel1", 0, 1<<41)
	now := 1000*startS + rel
	cfg := vCfg(startS, startNr, tsbd)
	switch mode {
	case 1:
		cfg.SegTimelineFlag = true
	case 2:
		cfg.SegTimelineNrFlag = true
	}
	atoMS := 0
	if opt&vOptSubs != 0 {
		cfg.TimeSubsStpp = []string{"en"}
		cfg.TimeSubsWvtt = []string{"sv"}
	}
	if opt&vOptPatch != 0 {
		cfg.PatchTTL = 60
		cfg.URLParts = []string{"", "livesim2", "patch_60", "testpic_2s", "Manifest.mpd"}
	}
	if opt&vOptLL != 0 {
		if opt&vOptLLTable != 0 {
			atoMS = vAtoTable[vConc(vInt("atoIdx", 0, len(vAtoTable)-1))]
		} else {
			atoMS = vInt("atoMS", 1, a.SegmentDurMS-1)
		}
		cfg.AvailabilityTimeOffsetS = float64(atoMS) / 1000.0
		cfg.AvailabilityTimeCompleteFlag = false
		cfg.LatencyTargetMS = Ptr(3500)
	}
	if opt&vOptAtoComplete != 0 {
		atoMS = vAtoTable2[vConc(vInt("atoIdx2", 0, len(vAtoTable2)-1))]
		cfg.AvailabilityTimeOffsetS = float64(atoMS) / 1000.0
		cfg.LatencyTargetMS = Ptr(3500)
	}
	hasStop := vBool("hasStop")
	stopS := 0
	if hasStop {
		stopS = startS + vInt("stopRelS", 1, 1<<31)
		cfg.StopTimeS = Ptr(stopS)
	}
	mpd, err := LiveMPD(a, mpdName, cfg, nil, now)
	vAssert("C05.livempd.ok", err == nil)
	if err != nil {
		return
	}
	endMS := now
	afterStop := hasStop && stopS*1000 < now
	if afterStop {
		endMS = stopS * 1000
	}
	// ---- MPD level ----
	vAssert("C05.livempd.type-set", mpd.Type != nil)
	if afterStop {
		vAssert("C05.livempd.static-after-stop", *mpd.Type == "static")
		vAssert("C05.livempd.static-duration", mpd.MediaPresentationDuration != nil && *mpd.MediaPresentationDuration == *m.Seconds2DurPtr(stopS - startS))
		vAssert("C05.livempd.static-no-live-attributes", mpd.TimeShiftBufferDepth == nil && mpd.MinimumUpdatePeriod == nil)
	} else {
		vAssert("C05.livempd.dynamic-before-stop", *mpd.Type == "dynamic")
		vAssert("C05.livempd.dynamic-no-duration", mpd.MediaPresentationDuration == nil)
		vAssert("C05.livempd.tsbd", mpd.TimeShiftBufferDepth != nil && *mpd.TimeShiftBufferDepth == *m.Seconds2DurPtr(tsbd))
		vAssert("C05.livempd.mup", mpd.MinimumUpdatePeriod != nil && int(*mpd.MinimumUpdatePeriod) == a.SegmentDurMS*1_000_000)
	}
	vAssert("C05.livempd.ast", vDateTimeMS(mpd.AvailabilityStartTime) == 1000*startS)
	vAssert("C05.livempd.one-period", len(mpd.Periods) == 1)
	if len(mpd.Periods) != 1 {
		return
	}
	p := mpd.Periods[0]
	vAssert("C05.livempd.period", p.Id == "P0" && p.Duration == nil && p.Start != nil && *p.Start == 0)

	// ---- the window the timelines must describe ends at min(now, stop) ----
	wt := calcWrapTimes(a, cfg, endMS, *m.Seconds2DurPtr(tsbd))
	videoID := ""
	for _, as := range p.AdaptationSets {
		if as.ContentType == "video" {
			videoID = as.Representations[0].Id
		}
	}
	vAssert("C05.livempd.has-video", videoID != "")
	if videoID == "" {
		return
	}
	// the float product 1000*ato may come out one below the configured milliseconds
	atoEff := atoMS
	if atoMS > 0 {
		for _, as := range p.AdaptationSets {
			if as.ContentType == "video" && as.SegmentTemplate != nil && as.SegmentTemplate.SegmentTimeline != nil &&
				!vSameS(as.SegmentTemplate.SegmentTimeline.S, a.generateTimelineEntries(videoID, wt, atoMS).entries) {
				atoEff = atoMS - 1
			}
		}
	}
	refSE := a.generateTimelineEntries(videoID, wt, atoEff)
	nrSubs := 0
	for _, as := range p.AdaptationSets {
		st := as.SegmentTemplate
		vAssert("C05.livempd.template", st != nil)
		if st == nil {
			continue
		}
		vAssert("C05.livempd.no-endNumber", st.EndNumber == nil)
		repID := as.Representations[0].Id
		rep := a.Reps[repID]
		if opt&vOptAtoComplete != 0 && (as.ContentType == "video" || as.ContentType == "audio") {
			vAssert("C05.livempd.ato.availabilityTimeOffset", float64(st.AvailabilityTimeOffset) == cfg.AvailabilityTimeOffsetS)
		}
		if opt&vOptLL != 0 && (as.ContentType == "video" || as.ContentType == "audio") {
			vAssert("C05.livempd.ll.availabilityTimeOffset", float64(st.AvailabilityTimeOffset) == cfg.AvailabilityTimeOffsetS)
			vAssert("C05.livempd.ll.availabilityTimeComplete-false", st.AvailabilityTimeComplete != nil && !*st.AvailabilityTimeComplete)
			vAssert("C05.livempd.ll.producer-reference-time", len(as.ProducerReferenceTimes) == 1)
		}
		if rep == nil {
			// generated subtitles: the video template/timeline at timescale 1000
			nrSubs++
			vAssert("C05.livempd.subs.expected", opt&vOptSubs != 0 && as.ContentType == "text")
			vAssert("C05.livempd.subs.timescale", st.Timescale != nil && *st.Timescale == 1000)
			var vst *m.SegmentTemplateType
			for _, v := range p.AdaptationSets {
				if v.ContentType == "video" {
					vst = v.SegmentTemplate
				}
			}
			vAssert("C05.livempd.subs.same-startNumber", (st.StartNumber == nil) == (vst.StartNumber == nil) && (st.StartNumber == nil || *st.StartNumber == *vst.StartNumber))
			if mode == 0 {
				vAssert("C05.livempd.subs.duration", st.Duration != nil && vst.Duration != nil && int(*st.Duration)*int(vst.GetTimescale()) == int(*vst.Duration)*1000)
				continue
			}
			vAssert("C05.livempd.subs.timeline-present", st.SegmentTimeline != nil && vst.SegmentTimeline != nil)
			if st.SegmentTimeline == nil || vst.SegmentTimeline == nil {
				continue
			}
			ss, vs := st.SegmentTimeline.S, vst.SegmentTimeline.S
			vts := int(*vst.Timescale)
			ok := len(ss) == len(vs)
			for i := 0; ok && i < len(ss); i++ {
				if ss[i].R != vs[i].R || int(ss[i].D)*vts != int(vs[i].D)*1000 || (ss[i].T == nil) != (vs[i].T == nil) {
					ok = false
				} else if ss[i].T != nil && int(*ss[i].T)*vts != int(*vs[i].T)*1000 {
					ok = false
				}
			}
			vAssert("C05.livempd.subs.timeline-is-video-timeline-in-ms", ok)
			continue
		}
		if mode == 0 || as.ContentType == "image" {
			vAssert("C05.livempd.number.startNumber", st.StartNumber != nil && int(*st.StartNumber) == startNr)
			vAssert("C05.livempd.number.no-timeline", st.SegmentTimeline == nil)
			vAssert("C05.livempd.number.duration-present", st.Duration != nil)
			if st.Duration != nil {
				ts := 1 // @timescale defaults to 1
				if st.Timescale != nil {
					ts = int(*st.Timescale)
				}
				// constant-duration assets: @duration/@timescale is the duration of a reference (video) segment
				ref := a.refRep
				vAssert("C05.livempd.number.duration", int(*st.Duration)*ref.MediaTimescale*len(ref.Segments) == ref.duration()*ts)
			}
			continue
		}
		var se segEntries
		switch as.ContentType {
		case "audio":
			se = a.generateTimelineEntriesFromRef(refSE, repID)
		default:
			se = a.generateTimelineEntries(repID, wt, atoEff)
		}
		vAssert("C05.livempd.timescale", st.Timescale != nil && int(*st.Timescale) == rep.MediaTimescale)
		vAssert("C05.livempd.timeline-present", st.SegmentTimeline != nil)
		if st.SegmentTimeline == nil {
			continue
		}
		vAssert("C05.livempd.timeline-is-window-up-to-min(now,stop)", vSameS(st.SegmentTimeline.S, se.entries))
		vAssert("C05.livempd.no-duration-attr", st.Duration == nil)
		if mode == 1 {
			vAssert("C05.livempd.time.no-startNumber", st.StartNumber == nil)
		} else if se.startNr >= 0 {
			vAssert("C05.livempd.nr.startNumber", st.StartNumber != nil && int(*st.StartNumber) == se.startNr+startNr)
		}
	}
	if opt&vOptSubs != 0 {
		vAssert("C05.livempd.subs.two-adaptation-sets", nrSubs == 2)
	} else {
		vAssert("C05.livempd.subs.none-without-parameter", nrSubs == 0)
	}
	if opt&vOptLL != 0 {
		vAssert("C05.livempd.ll.service-description", len(mpd.ServiceDescription) == 1)
	}
	if opt&vOptPatch != 0 {
		if afterStop {
			vAssert("C05.livempd.patch.none-when-static", len(mpd.PatchLocation) == 0)
		} else {
			vAssert("C05.livempd.patch.location", len(mpd.PatchLocation) == 1 && mpd.PatchLocation[0].Ttl == 60)
			if len(mpd.PatchLocation) == 1 {
				// the advertised patch URL names the publishTime of this very MPD
				vAssert("C05.livempd.patch.names-this-publishTime", vPatchPublishMS(string(mpd.PatchLocation[0].Value)) == vDateTimeMS(mpd.PublishTime))
			}
			vAssert("C05.livempd.patch.mpd-id", mpd.Id != "")
		}
	} else {
		vAssert("C05.livempd.patch.none-without-parameter", len(mpd.PatchLocation) == 0)
	}
	// ---- publishTime ----
	pub := vDateTimeMS(mpd.PublishTime)
	if mode == 0 {
		vAssert("C05.livempd.number.publishTime-is-ast", pub == 1000*startS)
	} else {
		vAssert("C05.livempd.publishTime", pub == vPubMS(calcPublishTime(cfg, refSE.lsi)))
		vAssert("C05.livempd.publishTime-not-in-future", pub <= now)
	}
	vReach("C05.livempd.end")
}
