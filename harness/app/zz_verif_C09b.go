//go:build verif

package app

import (
	"bytes"
	"context"
	"io/fs"
	"log/slog"
	"net/http"
	"os"

	"github.com/Eyevinn/mp4ff/mp4"
)

// C09 (glue) — writeChunkedSegment as a whole for a segment all of whose chunks are already available:
// the chunks written to the client are cut at multiples of segment duration minus availabilityTimeOffset
// (the chunk duration the URL configures), contain all the samples of the segment, and the response carries
// the media type. Under symbolic execution genLiveSegment, the mp4 sample plumbing and the chunk writer are
// replaced by recording stubs; natively the real segment is read, chunked, encoded and the written bytes are
// decoded again.

func init() {
	vHarnesses["vH_C09_chunked_write_testpic2s"] = vH_C09_chunked_write_testpic2s
	vHarnesses["vH_C09_chunked_write_testpic2s_full"] = vH_C09_chunked_write_testpic2s_full
}

type vRW2 struct {
	hdr http.Header
	buf bytes.Buffer
}

func (w *vRW2) Header() http.Header         { return w.hdr }
func (w *vRW2) Write(b []byte) (int, error) { return w.buf.Write(b) }
func (w *vRW2) WriteHeader(s int)           {}
func (w *vRW2) Flush()                      {}

var vGenMeta segMeta

func vStubGenLiveSegment(log *slog.Logger, vodFS fs.FS, a *asset, cfg *ResponseConfig, segmentPart string, nowMS int, isLast bool) (segOut, error) {
	return segOut{seg: &mp4.MediaSegment{Styp: &mp4.StypBox{}, Fragments: []*mp4.Fragment{{}}}, meta: vGenMeta}, nil
}

var vSpanIdx int
var vSpans []int

// records the chunk and the media span of the samples added to its fragment (the sample log is in write order)
func vStubWriteChunk(w http.ResponseWriter, chk chunk) error {
	span := 0
	for vSpanIdx < len(vFragLog) && vFragLog[vSpanIdx].frag == chk.frag {
		span += int(vFragLog[vSpanIdx].s.Dur)
		vSpanIdx++
	}
	vSpans = append(vSpans, span)
	return nil
}

func vStubUnixMS() int { return 0 }

// media span (ticks) of every chunk written, in order
func vStubWrittenSpans(w *vRW2) []int { return vSpans }

func vStubContentTypeOf(w *vRW2) string { return vLastContentType }

var vLastContentType string

func vStubHeaderSetC09(h http.Header, key, val string) {
	if key == "Content-Type" {
		vLastContentType = val
	}
}

func vH_C09_chunked_write_testpic2s()      { vC09Write(1500) }
func vH_C09_chunked_write_testpic2s_full() { vC09Write(1999) }

func vC09Write(maxAtoMS int) {
	a := vAsset_testpic_2s()
	vPrepareRegexps(a)
	rep := a.Reps["V300"]
	vLoadInit(rep)
	const frames, frameDur = 60, 3000 // the bundled 2 s segments: 60 frames of 1/30 s at 90 kHz
	ts := rep.MediaTimescale
	N := len(rep.Segments)
	startNr := vInt("startNr", 0, 1<<20)
	startS := vInt("startS", 0, 1<<31)
	r := vConc(vInt("r", 0, N-1))
	q := vInt("q", 0, 1<<24)
	n := q*N + r
	atoMS := vInt("atoMS", 1, maxAtoMS)
	cfg := vCfg(startS, startNr, 60)
	cfg.AvailabilityTimeOffsetS = float64(atoMS) / 1000.0
	cfg.AvailabilityTimeCompleteFlag = false
	start, end := vSegStartTicks(a, rep, n), vSegEndTicks(a, rep, n)
	// the segment ended more than one segment duration ago: every chunk is written at once, no waiting
	// (the pacing duration of the last chunk is a full chunk duration)
	rel := vInt("rel1", 0, 1<<41)
	now := 1000*startS + rel
	vAssume(1000*end+1000*(end-start) < rel*ts && rel*ts <= 1000*end+30000*ts)
	segID := startNr + n
	segPart := vSegName(rep.MediaURI, segID)
	vStubRep, vStubSegID = rep, segID
	// what genLiveSegment returns for this request (verified separately, vH_C01_liveseg_*)
	durs := make([]uint32, frames)
	for i := range durs {
		durs[i] = frameDur
	}
	vMkSegment(durs) // under symbolic execution: registers the samples handed out by the stubbed GetFullSamples
	vGenMeta = segMeta{rep: rep, newTime: uint64(start), newNr: uint32(startNr + n), newDur: uint32(end - start), timescale: uint32(ts)}
	vSpans, vSpanIdx = nil, 0
	w := &vRW2{hdr: http.Header{}}
	err := writeChunkedSegment(context.Background(), slog.Default(), w, cfg, nil, os.DirFS("testdata/assets"), a, segPart, now, false)
	vAssert("C09.write.ok", err == nil)
	if err != nil {
		return
	}
	vAssert("C09.write.content-type", vContentTypeOf(w) == "video/mp4")
	spans := vWrittenSpans(w)
	// chunk duration configured by the URL: segment duration - availabilityTimeOffset (1 ms slack for the float product)
	chunkDur := (a.SegmentDurMS - atoMS) * ts / 1000
	total := 0
	for i, sp := range spans {
		total += sp
		if i < len(spans)-1 {
			// chunk i ends at the first frame boundary at or after (i+1)*chunkDur; a chunk is never shorter than
			// one frame (1 ms slack upwards: the float product ato*1000 may be truncated by one)
			vAssert("C09.write.chunk-boundary-reached", total >= (i+1)*chunkDur)
			vAssert("C09.write.chunk-boundary-not-overshot", sp == frameDur || total-frameDur < (i+1)*(chunkDur+ts/1000))
		}
	}
	vAssert("C09.write.all-media-written", total == frames*frameDur)
	vReach("C09.write.end")
}
