//go:build verif

package app

import (
	"github.com/Eyevinn/mp4ff/mp4"
)

// vMkStppImgSegment builds a real one-sample stpp segment whose sample is a TTML snippet (timestamps without
// fraction, as in the bundled imsc1_img_en asset) followed by imgLen image bytes, described by a subs box.
func vMkStppImgSegment(tfdt uint64, imgLen int, grows bool) *mp4.MediaSegment {
	seg := mp4.NewMediaSegment()
	frag, err := mp4.CreateFragment(1, 1)
	if err != nil {
		panic(err)
	}
	seg.AddFragment(frag)
	ttml := []byte(`<p begin="00:00:00.000" end="00:00:01.000">x</p>`)
	if grows {
		ttml = []byte(`<p begin="00:00:00" end="00:00:01">x</p>`)
	}
	data := append([]byte{}, ttml...)
	for i := 0; i < imgLen; i++ {
		data = append(data, byte(0x80+i))
	}
	frag.AddFullSample(mp4.FullSample{Sample: mp4.Sample{Flags: mp4.SyncSampleFlags, Dur: 1000, Size: uint32(len(data))}, DecodeTime: tfdt, Data: data})
	subs := &mp4.SubsBox{Entries: []mp4.SubsEntry{{SampleDelta: 1, SubSamples: []mp4.SubsSample{{SubsampleSize: uint32(len(ttml))}, {SubsampleSize: uint32(imgLen)}}}}}
	if err := frag.Moof.Traf.AddChild(subs); err != nil {
		panic(err)
	}
	return seg
}
