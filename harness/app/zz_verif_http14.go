//go:build verif

package app

import (
	"strings"
	"time"
)

// C14 (traffic patterns through the real request entry): with traffic_<p0>,<p1>,... each BaseURL bu<k>/ is, at
// every second floor(now/1000), up / missing (404) / slow / hanging exactly as the k-th interval sequence, repeated
// cyclically, prescribes. The pattern text is concrete per variant (the grammar itself is decided by
// vH_C14_traffic_*), the instant and the segment number are symbolic.

func init() {
	vHarnesses["vH_C14_http_traffic_u7d5"] = vH_C14_http_traffic_u7d5
	vHarnesses["vH_C14_http_traffic_two"] = vH_C14_http_traffic_two
	vHarnesses["vH_C14_http_traffic_slowhang"] = vH_C14_http_traffic_slowhang
}

func vH_C14_http_traffic_u7d5()     { vC14HTTPTraffic("u7d5", 1) }
func vH_C14_http_traffic_two()      { vC14HTTPTraffic("u7d5,d3u9d2", 2) }
func vH_C14_http_traffic_slowhang() { vC14HTTPTraffic("u2s1h1d1", 1) }

var vSleptMS int

func vStubSleepRec(d time.Duration) { vSleptMS += int(d / time.Millisecond) }

func vStubClockStart()  { vSleptMS = 0 }
func vStubSleptMS() int { return vSleptMS }

// vExpandPattern: per-second states of one interval sequence like "u7d5" (independent of CreateLossItvls).
func vExpandPattern(p string) []byte {
	var out []byte
	i := 0
	for i < len(p) {
		st := p[i]
		i++
		d := 0
		for i < len(p) && p[i] >= '0' && p[i] <= '9' {
			d = d*10 + int(p[i]-'0')
			i++
		}
		for k := 0; k < d; k++ {
			out = append(out, st)
		}
	}
	return out
}

func vSplitComma(s string) []string {
	var out []string
	cur := ""
	for i := 0; i < len(s); i++ {
		if s[i] == ',' {
			out = append(out, cur)
			cur = ""
		} else {
			cur += string(s[i])
		}
	}
	return append(out, cur)
}

func vC14HTTPTraffic(patterns string, nPat int) {
	a := vAsset_testpic_2s()
	vPrepareRegexps(a)
	rep := a.Reps["V300"]
	ts := rep.MediaTimescale
	n := vInt("n", 0, 1<<26)
	k := vConc(vInt("bu", 0, nPat-1))
	// any instant in the first tsbd seconds after the segment became available (so that "up" means 200)
	extra := vInt("extra", 0, 59000)
	endTicks := vSegEndTicks(a, rep, n)
	now := (1000*endTicks+ts-1)/ts + extra
	vStubRep, vStubSegID = rep, n
	path := vStrf("/livesim2/traffic_"+patterns+"/testpic_2s/bu%d/V300/%d.m4s", k, n)
	s := vHTTPServer(a)
	vClockStart()
	w := vHTTPGet(s, path, now)
	slept := vSleptMS_()
	sched := vExpandPattern(vSplitComma(patterns)[k])
	state := sched[(now/1000)%len(sched)]
	switch state {
	case 'u':
		vAssert("C14.http.up-served", w.status == 200)
		vAssert("C14.http.up-not-delayed", slept < 2000)
	case 'd':
		vAssert("C14.http.down-404", w.status == 404)
		vAssert("C14.http.down-not-delayed", slept < 2000)
	case 's':
		vAssert("C14.http.slow-served", w.status == 200)
		vAssert("C14.http.slow-delayed", slept >= 2000 && slept < 10000)
	case 'h':
		vAssert("C14.http.hang-503", w.status == 503)
		vAssert("C14.http.hang-delayed", slept >= 10000)
	}
	vReach("C14.http.end")
}

// ---- status-code patterns through the real request entry: statuscode_[{cycle:30,rsq:1,code:404}] is parsed by the
// real parser and the request for segment n (any n, start time, start number; at an instant where it is available)
// is answered with the configured code exactly when n is the rsq-th segment starting in its 30 s cycle, 200 otherwise.

func init() {
	vHarnesses["vH_C14_http_status_c30"] = vH_C14_http_status_c30
	vHarnesses["vH_C14_http_status_audio_c30"] = vH_C14_http_status_audio_c30
}

func vH_C14_http_status_c30()       { vC14HTTPStatus("V300") }
func vH_C14_http_status_audio_c30() { vC14HTTPStatus("A48") }

func vC14HTTPStatus(repID string) {
	a := vAsset_testpic_2s()
	vPrepareRegexps(a)
	rep := a.Reps[repID]
	ref := a.refRep
	ts := ref.MediaTimescale
	startNr := vInt("startNr", 0, 1<<20)
	startS := vInt("startS", 0, 1<<32-1)
	n := vInt("n", 0, 1<<26)
	rsq := vConc(vInt("rsq", 0, 3))
	extra := vInt("extra", 0, 59000)
	endTicks := vSegEndTicks(a, ref, n)
	now := 1000*startS + (1000*endTicks+ts-1)/ts + extra
	segID := startNr + n
	vStubRep, vStubSegID = rep, segID
	media := strings.ReplaceAll(rep.MediaURI, "$Number$", "%d")
	path := vStrf("/livesim2/start_%d/snr_%d/statuscode_[{cycle:30,rsq:%d,code:404}]/testpic_2s/"+media, startS, startNr, rsq, segID)
	s := vHTTPServer(a)
	w := vHTTPGet(s, path, now)
	if vC14Hit(a, ref, n, 30, rsq) {
		vAssert("C14.http.status.hit-gets-code", w.status == 404)
	} else {
		vAssert("C14.http.status.others-normal", w.status == 200)
	}
	vReach("C14.http.status.end")
}
