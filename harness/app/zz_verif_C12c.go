//go:build verif

package app

import (
	"fmt"
	"io"
	"text/template"
	"time"

	"github.com/Eyevinn/mp4ff/mp4"
)

// C12 (stpp content): the real createSubtitlesStppMediaSegment: the TTML document of the segment has one <p> per cue
// interval of the (separately decided) cue grid, with begin/end equal to the cue's media times as hh:mm:ss.mmm, an id
// "<segment number>-<index>", the message naming that cue's UTC second, the configured region, and the single sample
// spans the whole segment (decode time, duration). Under symbolic execution the template engine is replaced by a
// stub that records the data handed to it; natively the rendered TTML is parsed back.

func init() {
	vHarnesses["vH_C12_stpp_content"] = vH_C12_stpp_content
}

type vStppCue struct {
	beginMS, endMS, utcMS int
	idNr, idIdx           int
}

var vStppRec StppTimeData

func vStubExecuteTemplate(t *template.Template, wr io.Writer, name string, data any) error {
	vStppRec = data.(StppTimeData)
	return nil
}

// the message is replaced by a value-carrying string (time formatting is outside)
func vStubMakeStppMessage(lang string, utcMS, segNr int) string { return vEncInt("utc", utcMS) }

// (time.Time).Format under symbolic execution, for the clock layout only: the same four numbers a hand-written
// hh:mm:ss.mmm rendering has - but wrapping at 24 hours, as the real Format does.
func vStubTimeFormatClock(t time.Time, layout string) string {
	if layout != "15:04:05.000" {
		return layout
	}
	sec := int(t.Unix())
	ms := t.Nanosecond() / 1000000
	return fmt.Sprintf("%02d:%02d:%02d.%03d", (sec/3600)%24, (sec/60)%60, sec%60, ms)
}

func vTTMLMS(s string) int {
	return ((vFmtIntAt(s, 0)*60+vFmtIntAt(s, 1))*60+vFmtIntAt(s, 2))*1000 + vFmtIntAt(s, 3)
}

func vStubStppCuesOf(seg *mp4.MediaSegment) (cues []vStppCue, region int) {
	for _, c := range vStppRec.Cues {
		cues = append(cues, vStppCue{beginMS: vTTMLMS(c.Begin), endMS: vTTMLMS(c.End), utcMS: vDecInt("utc", c.Msg),
			idNr: vFmtIntAt(c.Id, 0), idIdx: vFmtIntAt(c.Id, 1)})
	}
	return cues, vStppRec.Region
}

func vStubSegSampleTiming(seg *mp4.MediaSegment) (n, decodeTime, dur int) {
	return len(vRecSamples), int(vRecSamples[0].DecodeTime), int(vRecSamples[0].Dur)
}

func vH_C12_stpp_content() {
	bmdt := vInt("segStart", 0, 1<<41)
	dur := vInt("segDur", 1, 4000)
	startS := vInt("startS", 0, 1<<32-1)
	cueDur := vInt("cueDur", 1, 999)
	nr := vInt("nr", 0, 1<<31)
	region := vConc(vInt("region", 0, 1))
	utc := bmdt + 1000*startS
	vRecSamples = nil
	seg, err := createSubtitlesStppMediaSegment(uint32(nr), uint64(bmdt), uint32(dur), "en", uint64(utc), vTextTemplates(), cueDur, region)
	vAssert("C12.stpp.ok", err == nil)
	if err != nil {
		return
	}
	want := calcCueItvls(bmdt, dur, utc, cueDur) // the cue grid (decided by vH_C12_cues_*)
	cues, gotRegion := vStppCuesOf(seg)
	vAssert("C12.stpp.region", gotRegion == region)
	vAssert("C12.stpp.one-paragraph-per-cue", len(cues) == len(want))
	for i := range want {
		if i < len(cues) {
			vAssert("C12.stpp.begin", cues[i].beginMS == want[i].startMS)
			vAssert("C12.stpp.end", cues[i].endMS == want[i].endMS)
			vAssert("C12.stpp.message-names-the-utc-second", cues[i].utcMS == want[i].utcS*1000)
			vAssert("C12.stpp.id", cues[i].idNr == nr && cues[i].idIdx == i)
		}
	}
	n, dt, sd := vSegSampleTiming(seg)
	vAssert("C12.stpp.one-sample-spanning-the-segment", n == 1 && dt == bmdt && sd == dur)
	vReach("C12.stpp.end")
}
