//go:build verif

package app

import (
	"github.com/Eyevinn/mp4ff/mp4"
)

// C13 (low-latency delivery): a video segment that carries a SCTE-35 emsg in whole-segment mode carries the same
// event when it is delivered in chunks: the real chunkSegment, for a segment whose first fragment has an emsg and for
// any chunk duration, puts that emsg into the first chunk (before its moof) and into no other chunk - otherwise the
// per-minute schedule decided by vH_C13_ts* / vH_C13_liveseg_* would not hold for low-latency clients.

func init() {
	vHarnesses["vH_C13_chunked_keeps_event"] = vH_C13_chunked_keeps_event
}

// native: a real 4-sample segment with an emsg added to its fragment
func vStubMkSegmentWithEmsg(durs []uint32, e *mp4.EmsgBox) (*mp4.InitSegment, *mp4.MediaSegment) {
	init, seg := vStubMkSegment(durs)
	seg.Fragments[0].Children = []mp4.Box{e, &mp4.MoofBox{}, &mp4.MdatBox{}}
	return init, seg
}

func vStubCreateFragmentWithBoxes(seqNr uint32, trackID uint32) (*mp4.Fragment, error) {
	return &mp4.Fragment{Children: []mp4.Box{&mp4.MoofBox{}, &mp4.MdatBox{}}}, nil
}

func vH_C13_chunked_keeps_event() {
	e := &mp4.EmsgBox{SchemeIDURI: "urn:scte:scte35:2013:bin", TimeScale: 90000, ID: uint32(vInt("id", 0, 1<<31)), PresentationTime: uint64(vInt("pt", 0, 1<<48))}
	durs := []uint32{3000, 3000, 3000, 3000}
	init, seg := vMkSegmentWithEmsg(durs, e)
	chunkDur := vInt("chunkDur", 1, 15000)
	newTime := vInt("newTime", 0, 1<<48)
	meta := segMeta{newTime: uint64(newTime), newNr: uint32(vInt("newNr", 0, 1<<31)), newDur: 12000, timescale: 90000}
	chunks, err := chunkSegment(init, seg, meta, chunkDur)
	vAssert("C13.chunked.ok", err == nil && len(chunks) >= 1)
	if err != nil || len(chunks) < 1 {
		return
	}
	first := vEmsgsOf(chunks[0].frag)
	vAssert("C13.chunked.event-in-first-chunk", len(first) == 1)
	if len(first) == 1 {
		vAssert("C13.chunked.same-event", first[0].ID == e.ID && first[0].PresentationTime == e.PresentationTime)
		// emsg boxes precede the moof of their chunk
		vAssert("C13.chunked.event-before-moof", len(chunks[0].frag.Children) >= 2 && chunks[0].frag.Children[0] == mp4.Box(first[0]))
	}
	for k := 1; k < len(chunks); k++ {
		vAssert("C13.chunked.no-event-in-later-chunks", len(vEmsgsOf(chunks[k].frag)) == 0)
	}
	vReach("C13.chunked.end")
}
