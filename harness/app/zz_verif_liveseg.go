//go:build verif

package app

import (
	"io/fs"
	"log/slog"
	"os"

	"github.com/Dash-Industry-Forum/livesim2/pkg/scte35"
	"github.com/Eyevinn/mp4ff/bits"
	"github.com/Eyevinn/mp4ff/mp4"
)

// The whole genLiveSegment function for video segments (C01 rewriting glue, C13 event insertion glue):
// for an arbitrary available segment n = q*N + r of an arbitrary configuration, the returned segment has
//   - in every fragment the sequence number startNumber+n and a base media decode time shifted by the same
//     amount (newTime - first original tfdt), so fragment k starts at segment start + (orig_k - orig_0);
//   - sidx earliest presentation time = segment start (when the VoD segment has a sidx);
//   - an SCTE-35 emsg in its first fragment exactly when the verified schedule kernel yields one for the
//     segment's real interval (start, end], and none without the scte35 parameter;
//   - the lmsg brand exactly when it is the last segment.
// Under symbolic execution the file read and the mp4 decoder are replaced by a constructor that rebuilds the
// box structure the real decoder reports for VoD segment r (generated table vSegStruct); natively the real
// file is read and decoded.

func init() {
	vHarnesses["vH_C01_liveseg_testpic2s"] = vH_C01_liveseg_testpic2s
	vHarnesses["vH_C01_liveseg_alt"] = vH_C01_liveseg_alt
	vHarnesses["vH_C01_liveseg_testpic8s"] = vH_C01_liveseg_testpic8s
	vHarnesses["vH_C13_liveseg_testpic2s"] = vH_C13_liveseg_testpic2s
	vHarnesses["vH_C13_liveseg_alt"] = vH_C13_liveseg_alt
	vHarnesses["vH_C13_liveseg_text"] = vH_C13_liveseg_text
}

func vH_C01_liveseg_testpic2s() { vLiveSeg(vAsset_testpic_2s(), "V300", "C01") }
func vH_C01_liveseg_alt()       { vLiveSeg(vAsset_testpic_alt_seg_dur_stl(), "V300", "C01") }
func vH_C01_liveseg_testpic8s() { vLiveSeg(vAsset_testpic_8s(), "V300", "C01") }
func vH_C13_liveseg_testpic2s() { vLiveSeg(vAsset_testpic_2s(), "V300", "C13") }
func vH_C13_liveseg_alt()       { vLiveSeg(vAsset_testpic_alt_seg_dur_stl(), "V300", "C13") }

// a subtitle (stpp) representation of the same asset: events are carried by video only
func vH_C13_liveseg_text() { vLiveSeg(vAsset_testpic_2s(), "imsc1_txt_sv", "C13") }

var vStubSeg *vSegInfo

func vStubReadFile(fsys fs.FS, name string) ([]byte, error) { return []byte{0}, nil }

func vStubDecodeFileSR(sr bits.SliceReader, options ...mp4.Option) (*mp4.File, error) {
	si := vStubSeg
	seg := &mp4.MediaSegment{}
	if si.styp {
		seg.Styp = mp4.CreateStyp()
	}
	if si.sidx {
		seg.Sidx = &mp4.SidxBox{Timescale: si.sidxTimescale, EarliestPresentationTime: si.frags[0].tfdt}
		seg.Sidxs = []*mp4.SidxBox{seg.Sidx}
	}
	for _, fi := range si.frags {
		tfdt := &mp4.TfdtBox{}
		tfdt.SetBaseMediaDecodeTime(fi.tfdt)
		trun := &mp4.TrunBox{DataOffset: 1000}
		tfhd := &mp4.TfhdBox{}
		traf := &mp4.TrafBox{Tfhd: tfhd, Tfdt: tfdt, Trun: trun, Truns: []*mp4.TrunBox{trun}, Children: []mp4.Box{tfhd, tfdt, trun}}
		mfhd := &mp4.MfhdBox{SequenceNumber: fi.seq}
		moof := &mp4.MoofBox{Mfhd: mfhd, Traf: traf, Trafs: []*mp4.TrafBox{traf}, Children: []mp4.Box{mfhd, traf}}
		mdat := &mp4.MdatBox{StartPos: 2000}
		seg.Fragments = append(seg.Fragments, &mp4.Fragment{Moof: moof, Mdat: mdat, Children: []mp4.Box{moof, mdat}})
	}
	return &mp4.File{Segments: []*mp4.MediaSegment{seg}}, nil
}

func vEmsgsOf(f *mp4.Fragment) []*mp4.EmsgBox {
	var out []*mp4.EmsgBox
	for _, c := range f.Children {
		if e, ok := c.(*mp4.EmsgBox); ok {
			out = append(out, e)
		}
	}
	return out
}

func vHasBrand(s *mp4.StypBox, brand string) bool {
	for _, b := range s.CompatibleBrands() {
		if b == brand {
			return true
		}
	}
	return false
}

func vLiveSeg(a *asset, repID, prop string) {
	vPrepareRegexps(a)
	rep := a.Reps[repID]
	N := len(rep.Segments)
	ts := rep.MediaTimescale
	startNr := vInt("startNr", 0, 1<<20)
	startS := vInt("startS", 0, 1<<31)
	r := vConc(vInt("r", 0, N-1)) // VoD segment (concrete per path: selects the decoded structure)
	q := vInt("q", 0, 1<<24)
	n := q*N + r
	cfg := vCfg(startS, startNr, 60)
	mode := vConc(vInt("mode", 0, 2))
	switch mode {
	case 1:
		cfg.SegTimelineFlag = true
	case 2:
		cfg.SegTimelineNrFlag = true
	}
	perMinute := 0
	if vBool("scte35") {
		perMinute = vInt("perMinute", 1, 3)
		cfg.SCTE35PerMinute = Ptr(perMinute)
	}
	isLast := vBool("isLast")
	// any instant at which segment n is available
	rel := vInt("rel1", 0, 1<<41)
	now := 1000*startS + rel
	start, end := vSegStartTicks(a, rep, n), vSegEndTicks(a, rep, n)
	vAssume(1000*end <= rel*ts && rel*ts <= 1000*end+60000*ts)
	segID := startNr + n
	if mode == 1 {
		segID = start
	}
	segPart := vSegName(rep.MediaURI, segID)
	vStubRep, vStubSegID = rep, segID
	si := vSegStruct(a.AssetPath, repID, r)
	vStubSeg = si
	so, err := genLiveSegment(slog.Default(), os.DirFS("testdata/assets"), a, cfg, segPart, now, isLast)
	vAssert(prop+".liveseg.ok", err == nil)
	if err != nil {
		return
	}
	seg := so.seg
	vAssert(prop+".liveseg.decoded", seg != nil && so.data == nil)
	if seg == nil {
		return
	}
	vAssert(prop+".liveseg.fragment-count", len(seg.Fragments) == len(si.frags))
	if len(seg.Fragments) != len(si.frags) {
		return
	}
	if prop == "C01" {
		vAssert("C01.liveseg.meta-number", int(so.meta.newNr) == startNr+n)
		for k, f := range seg.Fragments {
			vAssert("C01.liveseg.sequence-number", int(f.Moof.Mfhd.SequenceNumber) == startNr+n)
			vAssert("C01.liveseg.fragment-decode-time", int(f.Moof.Traf.Tfdt.BaseMediaDecodeTime()) == start+int(si.frags[k].tfdt-si.frags[0].tfdt))
		}
		if si.sidx {
			vAssert("C01.liveseg.sidx", seg.Sidx != nil && int(seg.Sidx.EarliestPresentationTime) == start && int(seg.Sidx.Timescale) == ts)
		}
		if si.styp {
			vAssert("C01.liveseg.lmsg-iff-last", seg.Styp != nil && vHasBrand(seg.Styp, "lmsg") == isLast)
		}
	}
	if prop == "C13" {
		emsgs := vEmsgsOf(seg.Fragments[0])
		for k := 1; k < len(seg.Fragments); k++ {
			vAssert("C13.liveseg.events-only-in-first-fragment", len(vEmsgsOf(seg.Fragments[k])) == 0)
		}
		if perMinute == 0 {
			vAssert("C13.liveseg.no-event-without-parameter", len(emsgs) == 0)
		} else if rep.ContentType != "video" {
			vAssert("C13.liveseg.events-in-video-only", len(emsgs) == 0)
		} else {
			want, werr := scte35.CreateEmsgAhead(uint64(start), uint64(end), uint64(ts), perMinute)
			vAssert("C13.liveseg.kernel-ok", werr == nil)
			if want == nil {
				vAssert("C13.liveseg.no-spurious-event", len(emsgs) == 0)
			} else {
				vAssert("C13.liveseg.event-carried-once", len(emsgs) == 1)
				if len(emsgs) == 1 {
					vAssert("C13.liveseg.event-time", emsgs[0].PresentationTime == want.PresentationTime && emsgs[0].ID == want.ID)
					vAssert("C13.liveseg.event-timescale", int(emsgs[0].TimeScale) == ts)
				}
			}
		}
	}
	vReach(prop + ".liveseg.end")
}

// the splice_info_section builder (external library + CRC) is stubbed under symbolic execution; its parameters are
// recorded so that the C13 kernel harness can check them against the emsg (natively the real section is parsed)
var vLastParams scte35.SpliceInsertParams

func vStubCreateSpliceInsertPayload(p scte35.SpliceInsertParams) []byte {
	vLastParams = p
	return nil
}

// ---- stpp segments: the TTML timestamps inside the sample move by the same offset as the decode time ----

func init() {
	vHarnesses["vH_C01_stpp_shift"] = vH_C01_stpp_shift
}

var vLastShiftMS uint64

func vStubShiftTTML(data []byte, timeShiftMS uint64) ([]byte, error) {
	vLastShiftMS = timeShiftMS
	return data, nil
}

func vStubGetFullSamplesStpp(f *mp4.Fragment, trex *mp4.TrexBox) ([]mp4.FullSample, error) {
	return []mp4.FullSample{{Data: []byte{0}}}, nil
}

// box skeleton of a one-sample stpp fragment (what shiftStppTimes touches)
func vStubMkStppSegment(tfdt uint64) *mp4.MediaSegment {
	t := &mp4.TfdtBox{}
	t.SetBaseMediaDecodeTime(tfdt)
	trun := &mp4.TrunBox{Samples: []mp4.Sample{{}}}
	tfhd := &mp4.TfhdBox{}
	traf := &mp4.TrafBox{Tfhd: tfhd, Tfdt: t, Trun: trun, Children: []mp4.Box{tfhd, t, trun}}
	moof := &mp4.MoofBox{Mfhd: &mp4.MfhdBox{SequenceNumber: 1}, Traf: traf}
	return &mp4.MediaSegment{Fragments: []*mp4.Fragment{{Moof: moof, Mdat: &mp4.MdatBox{}}}}
}

func vStubStppShiftMSOf(seg *mp4.MediaSegment) int { return int(vLastShiftMS) }

func vH_C01_stpp_shift() {
	// media timescales in use for stpp (1000) and for tracks that share the video clock
	tsTable := [5]int{1000, 10000, 30000, 48000, 90000}
	ts := tsTable[vConc(vInt("tsIdx", 0, 4))]
	// the segment moves by a whole number of milliseconds (loop duration times wraps), at most ~35 years
	shiftMS := vInt("shiftMS", 0, 1<<40)
	vAssume((shiftMS*ts)%1000 == 0)
	shift := shiftMS * ts / 1000
	tfdt := vInt("tfdt", 0, 1<<20)
	nr := vInt("nr", 0, 1<<31)
	seg := vMkStppSegment(uint64(tfdt))
	err := shiftStppTimes(seg, uint32(ts), uint64(shift), uint32(nr))
	vAssert("C01.stpp.ok", err == nil)
	if err != nil {
		return
	}
	f := seg.Fragments[0]
	vAssert("C01.stpp.sequence-number", int(f.Moof.Mfhd.SequenceNumber) == nr)
	vAssert("C01.stpp.decode-time", int(f.Moof.Traf.Tfdt.BaseMediaDecodeTime()) == tfdt+shift)
	vAssert("C01.stpp.ttml-shift-equals-decode-time-shift", vStppShiftMSOf(seg) == shiftMS)
	vReach("C01.stpp.end")
}
