//go:build verif

package app

import "time"

var vT0 time.Time

// native side: wall-clock time spent in the handler (under symbolic execution time.Sleep is a recording stub)
func vClockStart()   { vT0 = time.Now() }
func vSleptMS_() int { return int(time.Since(vT0) / time.Millisecond) }
