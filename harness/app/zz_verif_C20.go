//go:build verif

package app

import (
	"fmt"
	"io"
	"net/http"
	"time"
)

// C20 — the request limiter enforces its quota exactly. Sequential semantics over all k-step
// histories (symbolic addresses and non-decreasing instants) + lock discipline (every access to
// Counters/ResetTime happens with mux held and every path releases it), which makes the critical
// sections atomic so that the sequential result extends to any interleaving.

func init() {
	vHarnesses["vH_C20_k3"] = vH_C20_k3
	vHarnesses["vH_C20_k4"] = vH_C20_k4
	vHarnesses["vH_C20_k6"] = vH_C20_k6
}

func vH_C20_k3() { vC20(3) }
func vH_C20_k4() { vC20(4) }
func vH_C20_k6() { vC20(6) }

func vC20(k int) {
	maxReq := vInt("max", 0, 8)
	itvlMS := vInt("itvlMS", 1, 3600000)
	t0 := vInt("t0", 0, 1<<40)
	il, err := NewIPRequestLimiter(maxReq, time.Duration(itvlMS)*time.Millisecond, time.UnixMilli(int64(t0)), "", "")
	vAssert("C20.new-ok", err == nil)
	// reference model
	resetT := t0
	cnt := map[string]int{}
	t := t0
	for i := 0; i < k; i++ {
		dt := vInt(fmt.Sprintf("dt%d", i), 0, 1<<32)
		t += dt
		ip := vAtom(fmt.Sprintf("ip%d", i), 3)
		nr, maxNr, ok := il.Inc(time.UnixMilli(int64(t)), ip)
		if t-resetT > itvlMS {
			cnt = map[string]int{}
			resetT = t
		}
		cnt[ip]++
		vAssert("C20.nr-is-jth-request", nr == cnt[ip])
		vAssert("C20.max-reported", maxNr == maxReq)
		vAssert("C20.ok-iff-within-quota", ok == (cnt[ip] <= maxReq))
		vAssert("C20.count-readback", il.Count(ip) == cnt[ip])
		vAssert("C20.lock-released", !vHeld(&il.mux))
	}
	end := il.EndTime()
	vAssert("C20.endtime", end.UnixMilli() == int64(resetT+itvlMS))
	vAssert("C20.lock-released-end", !vHeld(&il.mux))
	vReach("C20.end")
}

// ---- the two places that use the limiter on the serving path: the /reqcount handler and the middleware ----
// Run with the guarded-field discipline on: any read or write of Counters/ResetTime outside mux is reported.

func init() {
	vHarnesses["vH_C20_handlers"] = vH_C20_handlers
}

type vRW struct {
	hdr    http.Header
	status int
	wrote  int
}

func (w *vRW) Header() http.Header         { return w.hdr }
func (w *vRW) Write(b []byte) (int, error) { w.wrote++; return len(b), nil }
func (w *vRW) WriteHeader(s int)           { w.status = s }

func vStubHeaderGet(h http.Header, key string) string {
	v := h[key]
	if len(v) == 0 {
		return ""
	}
	return v[0]
}

func vStubHeaderSet(h http.Header, key, val string) { h[key] = []string{val} }

func vStubWriteString(w io.Writer, s string) (int, error) { return w.Write(nil) }

func vStubTimeFormat(t time.Time, layout string) string { return layout }

var vNowMS int

func vStubNow() time.Time { return time.UnixMilli(int64(vNowMS)) }

type vNext struct{ served int }

func (n *vNext) ServeHTTP(w http.ResponseWriter, r *http.Request) { n.served++ }

func vH_C20_handlers() {
	maxReq := vInt("max", 0, 3)
	itvlMS := vInt("itvlMS", 1, 3600000)
	t0 := vInt("t0", 0, 1<<40)
	il, err := NewIPRequestLimiter(maxReq, time.Duration(itvlMS)*time.Millisecond, time.UnixMilli(int64(t0)), "", "")
	vAssert("C20.handlers.new-ok", err == nil)
	s := &Server{reqLimiter: il}
	next := &vNext{}
	mw := NewLimiterMiddleware("Livesim2-Requests", il)(next)
	served := 0
	for i := 0; i < 3; i++ {
		ip := vAtom(fmt.Sprintf("ip%d", i), 2)
		r := &http.Request{Header: http.Header{"X-Forwarded-For": []string{ip}}}
		w := &vRW{hdr: http.Header{}}
		if vBool(fmt.Sprintf("count%d", i)) {
			s.reqCountHandlerFunc(w, r)
			vAssert("C20.handlers.reqcount-answers", w.wrote == 1)
		} else {
			vNowMS = t0 + vInt(fmt.Sprintf("dt%d", i), 0, 1<<32)
			before := next.served
			mw.ServeHTTP(w, r)
			// either passed on or refused with 429, never both
			passed := next.served == before+1
			vAssert("C20.handlers.pass-or-429", passed != (w.status == http.StatusTooManyRequests))
			if passed {
				served++
			}
		}
		vAssert("C20.handlers.lock-released", !vHeld(&il.mux))
	}
	if maxReq == 0 {
		vAssert("C20.handlers.zero-quota-serves-nothing", served == 0)
	}
	vReach("C20.handlers.end")
}

// ---- two requests served at the same time: shared-access (lockset) discipline ----
// Two middleware invocations (and the /reqcount handler) run as logical threads on the same limiter and the same
// middleware value. Every access of the repository's code to memory that both requests can reach (the limiter, the
// variables captured by the middleware closure, package-level variables) must happen under a common lock whenever one
// of the accesses is a write; anything else is a data race between concurrent requests.

func init() {
	vHarnesses["vH_C20_concurrent"] = vH_C20_concurrent
}

func vH_C20_concurrent() {
	maxReq := vInt("max", 0, 3)
	itvlMS := vInt("itvlMS", 1, 3600000)
	t0 := vInt("t0", 0, 1<<40)
	il, err := NewIPRequestLimiter(maxReq, time.Duration(itvlMS)*time.Millisecond, time.UnixMilli(int64(t0)), "", "")
	vAssert("C20.concurrent.new-ok", err == nil)
	s := &Server{reqLimiter: il}
	next := &vNext{}
	mw := NewLimiterMiddleware("Livesim2-Requests", il)(next)
	// per-request objects are created before the threads start (they are not shared: each is used by one thread only)
	var ws [3]*vRW
	var rs [3]*http.Request
	for i := 0; i < 3; i++ {
		ip := vAtom(fmt.Sprintf("ip%d", i), 2)
		rs[i] = &http.Request{Header: http.Header{"X-Forwarded-For": []string{ip}}}
		ws[i] = &vRW{hdr: http.Header{}}
	}
	vNowMS = t0 + vInt("dt0", 0, 1<<32)
	vThread(1)
	mw.ServeHTTP(ws[0], rs[0])
	vThread(2)
	mw.ServeHTTP(ws[1], rs[1])
	vThread(3)
	s.reqCountHandlerFunc(ws[2], rs[2])
	vThread(0)
	vAssert("C20.concurrent.lock-released", !vHeld(&il.mux))
	vReach("C20.concurrent.end")
}
