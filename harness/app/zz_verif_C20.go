//go:build verif

package app

import (
	"fmt"
	"time"
)

// C20 — the request limiter enforces its quota exactly. Sequential semantics over all k-step
// histories (symbolic addresses and non-decreasing instants) + lock discipline (every access to
// Counters/ResetTime happens with mux held and every path releases it), which makes the critical
// sections atomic so that the sequential result extends to any interleaving.

func init() {
	vHarnesses["vH_C20_k3"] = vH_C20_k3
	vHarnesses["vH_C20_k4"] = vH_C20_k4
	vHarnesses["vH_C20_k6"] = vH_C20_k6
}

func vH_C20_k3() { vC20(3) }
func vH_C20_k4() { vC20(4) }
func vH_C20_k6() { vC20(6) }

func vC20(k int) {
	maxReq := vInt("max", 0, 8)
	itvlMS := vInt("itvlMS", 1, 3600000)
	t0 := vInt("t0", 0, 1<<40)
	il, err := NewIPRequestLimiter(maxReq, time.Duration(itvlMS)*time.Millisecond, time.UnixMilli(int64(t0)), "", "")
	vAssert("C20.new-ok", err == nil)
	// reference model
	resetT := t0
	cnt := map[string]int{}
	t := t0
	for i := 0; i < k; i++ {
		dt := vInt(fmt.Sprintf("dt%d", i), 0, 1<<32)
		t += dt
		ip := vAtom(fmt.Sprintf("ip%d", i), 3)
		nr, maxNr, ok := il.Inc(time.UnixMilli(int64(t)), ip)
		if t-resetT > itvlMS {
			cnt = map[string]int{}
			resetT = t
		}
		cnt[ip]++
		vAssert("C20.nr-is-jth-request", nr == cnt[ip])
		vAssert("C20.max-reported", maxNr == maxReq)
		vAssert("C20.ok-iff-within-quota", ok == (cnt[ip] <= maxReq))
		vAssert("C20.count-readback", il.Count(ip) == cnt[ip])
		vAssert("C20.lock-released", !vHeld(&il.mux))
	}
	end := il.EndTime()
	vAssert("C20.endtime", end.UnixMilli() == int64(resetT+itvlMS))
	vAssert("C20.lock-released-end", !vHeld(&il.mux))
	vReach("C20.end")
}
