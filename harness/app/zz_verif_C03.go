//go:build verif

package app

import (
	"io/fs"
	"os"

	m "github.com/Eyevinn/dash-mpd/mpd"
	"github.com/Eyevinn/mp4ff/mp4"
)

// C03 — audio is re-segmented to follow video boundaries without loss or duplication.

func init() {
	vHarnesses["vH_C03_recipe_testpic2s"] = vH_C03_recipe_testpic2s
	vHarnesses["vH_C03_recipe_wave2997"] = vH_C03_recipe_wave2997
	vHarnesses["vH_C03_recipe_bbb_ac3"] = vH_C03_recipe_bbb_ac3
	vHarnesses["vH_C03_recipe_testpic6s"] = vH_C03_recipe_testpic6s
	vHarnesses["vH_C03_recipe_testpic8s"] = vH_C03_recipe_testpic8s
	vHarnesses["vH_C03_recipe_alt"] = vH_C03_recipe_alt
	vHarnesses["vH_C03_recipe_syn_irregular3"] = vH_C03_recipe_syn_irregular3
	vHarnesses["vH_C03_recipe_syn_audio_short"] = vH_C03_recipe_syn_audio_short
	vHarnesses["vH_C03_recipe_syn_audio_long"] = vH_C03_recipe_syn_audio_long
	vHarnesses["vH_C03_mpd_testpic2s"] = vH_C03_mpd_testpic2s
	vHarnesses["vH_C03_mpd_wave2997"] = vH_C03_mpd_wave2997
	vHarnesses["vH_C03_mpd_bbb_ac3"] = vH_C03_mpd_bbb_ac3
	vHarnesses["vH_C03_mpd_alt"] = vH_C03_mpd_alt
}

func vH_C03_recipe_testpic2s() { vC03Recipe(vAsset_testpic_2s(), "A48") }
func vH_C03_recipe_wave2997() {
	vC03Recipe(vAsset_WAVE_vectors_cfhd_sets_14_985_29_97_59_94_t1_2022_10_17(), "A48")
}
func vH_C03_recipe_bbb_ac3()         { vC03Recipe(vAsset_bbb_hevc_ac3_8s(), "2") }
func vH_C03_recipe_testpic6s()       { vC03Recipe(vAsset_testpic_6s(), "A48") }
func vH_C03_recipe_testpic8s()       { vC03Recipe(vAsset_testpic_8s(), "A48") }
func vH_C03_recipe_alt()             { vC03Recipe(vAsset_testpic_alt_seg_dur_stl(), "A48") }
func vH_C03_recipe_syn_irregular3()  { vC03Recipe(vAsset_syn_irregular3(), "A1") }
func vH_C03_recipe_syn_audio_short() { vC03Recipe(vAsset_syn_audio_short(), "A1") }
func vH_C03_recipe_syn_audio_long()  { vC03Recipe(vAsset_syn_audio_long(), "A1") }

func vRecipeFor(a *asset, rep *RepData, cfg *ResponseConfig, nr uint32) (audioRecipe, error) {
	ref := a.refRep
	refMeta, err := findSegMetaFromNr(a, ref, nr, cfg, 0)
	if err != nil {
		return audioRecipe{}, err
	}
	return calcAudioSegRecipe(refMeta.newNr, refMeta.newTime, refMeta.newTime+uint64(refMeta.newDur),
		uint64(ref.duration()), uint64(ref.MediaTimescale), rep), nil
}

// vC03Recipe: the served audio segment n starts at the first frame boundary at or after the start of
// video segment n (hence < 1 frame late), ends at the first frame boundary at or after its end, so
// consecutive segments abut (also across wraps), and the sample-interval bookkeeping of the recipe is
// consistent: in-loop part + after-wrap part = whole segment.
func vC03Recipe(a *asset, repID string) {
	rep := a.Reps[repID]
	ref := a.refRep
	refTs, aTs := ref.MediaTimescale, rep.MediaTimescale
	frame := int(*rep.ConstantSampleDuration)
	startNr := vInt("startNr", 0, 1<<20)
	n := vInt("n", 0, 1<<26)
	cfg := vCfg(0, startNr, 60)
	cfg.AvailabilityTimeOffsetS = vInf()
	r1, err1 := vRecipeFor(a, rep, cfg, uint32(startNr+n))
	vAssert("C03.recipe.ok", err1 == nil)
	refStart, refEnd := vSegStartTicks(a, ref, n), vSegEndTicks(a, ref, n)
	s, e := int(r1.startTime), int(r1.endTime)
	vAssert("C03.start.frame-aligned", s%frame == 0)
	vAssert("C03.start.not-early", s*refTs >= refStart*aTs)
	vAssert("C03.start.less-than-a-frame-late", (s-frame)*refTs < refStart*aTs)
	vAssert("C03.end.frame-aligned", e%frame == 0)
	vAssert("C03.end.not-early", e*refTs >= refEnd*aTs)
	vAssert("C03.end.less-than-a-frame-late", (e-frame)*refTs < refEnd*aTs)
	vAssert("C03.nonempty", e > s)
	vAssert("C03.segNr", int(r1.segNr) == startNr+n)
	// abutment with the next segment, also across the loop wrap
	r2, err2 := vRecipeFor(a, rep, cfg, uint32(startNr+n+1))
	vAssert("C03.next.ok", err2 == nil)
	vAssert("C03.abut", r1.endTime == r2.startTime)
	// the recipe's input intervals account for every output frame exactly once
	in1 := int(r1.audioInEnd) - int(r1.audioInStart)
	vAssert("C03.in-interval-ordered", in1 >= 0)
	vAssert("C03.in-plus-wrap-is-whole", in1+int(r1.audioInEndAfterWrap) == e-s)
	vAssert("C03.in-start-aligned", int(r1.audioInStart)%frame == 0)
	vAssert("C03.in-end-aligned", int(r1.audioInEnd)%frame == 0)
	// the input position is the output position relative to the start of the (audio) loop it lies in
	loopRefTicks := a.LoopDurMS * refTs / 1000
	wrapAudio := vAudioTimeOracle((refStart/loopRefTicks)*loopRefTicks, refTs, frame, aTs)
	vAssert("C03.in-start-is-loop-relative", int(r1.audioInStart) == s-wrapAudio)
	vReach("C03.recipe.end")
}

func vH_C03_mpd_testpic2s() { vC03MPD(vAsset_testpic_2s(), "V300", "A48", 5) }
func vH_C03_mpd_wave2997() {
	vC03MPD(vAsset_WAVE_vectors_cfhd_sets_14_985_29_97_59_94_t1_2022_10_17(), "1", "A48", 5)
}
func vH_C03_mpd_bbb_ac3() { vC03MPD(vAsset_bbb_hevc_ac3_8s(), "1", "2", 5) }
func vH_C03_mpd_alt()     { vC03MPD(vAsset_testpic_alt_seg_dur_stl(), "V300", "A48", 13) }

// vC03MPD: the audio SegmentTimeline in the MPD lists exactly the start times and durations of the
// served (re-segmented) audio segments.
func vC03MPD(a *asset, videoID, audioID string, maxTsbd int) {
	rep := a.Reps[audioID]
	startS := vInt("startS", 0, 1<<32-1)
	tsbd := vInt("tsbd", 0, maxTsbd)
	rel := vInt("rel1", 0, 1<<41)
	now := 1000*startS + rel
	cfg := vCfg(startS, 0, tsbd)
	cfg.SegTimelineFlag = true
	refSE := a.generateTimelineEntries(videoID, calcWrapTimes(a, cfg, now, *m.Seconds2DurPtr(tsbd)), 0)
	se := a.generateTimelineEntriesFromRef(refSE, audioID)
	if refSE.startNr < 0 {
		vAssert("C03.mpd.empty-when-ref-empty", len(se.entries) == 0)
		vReach("C03.mpd.end-empty")
		return
	}
	vid, aud := vExpand12(refSE), vExpand12(se)
	vAssert("C03.mpd.same-count", len(vid) == len(aud))
	cfgS := vCfg(startS, 0, tsbd)
	cfgS.AvailabilityTimeOffsetS = vInf()
	for k := range aud {
		r, err := vRecipeFor(a, rep, cfgS, uint32(refSE.startNr+k))
		vAssert("C03.mpd.recipe-ok", err == nil)
		vAssert("C03.mpd.entry-start", aud[k].t == r.startTime)
		vAssert("C03.mpd.entry-dur", aud[k].d == r.endTime-r.startTime)
	}
	vReach("C03.mpd.end")
}

// ---- $Time$ addressing of audio: the advertised audio time of reference segment n resolves to segment n ----

func init() {
	vHarnesses["vH_C03_time_testpic2s"] = vH_C03_time_testpic2s
	vHarnesses["vH_C03_time_bbb_ac3"] = vH_C03_time_bbb_ac3
	vHarnesses["vH_C03_time_wave2997"] = vH_C03_time_wave2997
	vHarnesses["vH_C03_time_testpic6s"] = vH_C03_time_testpic6s
	vHarnesses["vH_C03_time_syn_irregular3"] = vH_C03_time_syn_irregular3
}

func vH_C03_time_testpic2s() { vC03Time(vAsset_testpic_2s(), "A48") }
func vH_C03_time_bbb_ac3()   { vC03Time(vAsset_bbb_hevc_ac3_8s(), "2") }
func vH_C03_time_wave2997() {
	vC03Time(vAsset_WAVE_vectors_cfhd_sets_14_985_29_97_59_94_t1_2022_10_17(), "A48")
}
func vH_C03_time_testpic6s()      { vC03Time(vAsset_testpic_6s(), "A48") }
func vH_C03_time_syn_irregular3() { vC03Time(vAsset_syn_irregular3(), "A1") }

// vC03Time: a request for the audio $Time$ that the MPD advertises for reference segment n (the first
// frame boundary at or after the video start) is mapped back to exactly that reference segment, so
// Number and Time addressing serve the same audio segment; a time that is not a frame boundary is rejected.
func vC03Time(a *asset, repID string) {
	rep := a.Reps[repID]
	ref := a.refRep
	refTs, aTs := ref.MediaTimescale, rep.MediaTimescale
	frame := int(*rep.ConstantSampleDuration)
	startNr := vInt("startNr", 0, 1<<20)
	n := vInt("n", 0, 1<<24)
	cfg := vCfg(0, startNr, 60)
	cfg.SegTimelineFlag = true
	cfg.AvailabilityTimeOffsetS = vInf()
	refStart := vSegStartTicks(a, ref, n)
	t := vAudioTimeOracle(refStart, refTs, frame, aTs)
	refMeta, err := findRefSegMetaFromTime(a, rep, uint64(t), cfg, 0)
	vAssert("C03.time.ok", err == nil)
	if err == nil {
		vAssert("C03.time.resolves-to-segment-n", int(refMeta.newNr) == startNr+n)
		vAssert("C03.time.ref-start", int(refMeta.newTime) == refStart)
		vAssert("C03.time.ref-dur", int(refMeta.newDur) == vSegEndTicks(a, ref, n)-refStart)
		rec := calcAudioSegRecipe(refMeta.newNr, refMeta.newTime, refMeta.newTime+uint64(refMeta.newDur),
			uint64(ref.duration()), uint64(refTs), rep)
		vAssert("C03.time.served-start-is-requested-time", int(rec.startTime) == t)
	}
	off := vInt("off", 1, 1535)
	vAssume(off < frame)
	_, errOff := findRefSegMetaFromTime(a, rep, uint64(t+off), cfg, 0)
	vAssert("C03.time.non-frame-boundary-rejected", errOff != nil)
	vReach("C03.time.end")
}

// ---- the caller glue createAudioSegment (reference lookup -> recipe -> output meta) on a video grid whose segment
// boundaries are not whole milliseconds: 29.97 fps, 75-frame segments of 2502.5 ms (timescale 30000, 2 segments,
// 5005 ms loop) with the bundled AAC track of testpic_2s. The served audio segment n starts at the first frame
// boundary at or after the exact start of video segment n and ends at the first one at or after its exact end.

func init() {
	vHarnesses["vH_C03_served_fracms"] = vH_C03_served_fracms
	vHarnesses["vH_C03_served_testpic2s"] = vH_C03_served_testpic2s
}

func vStubCreateAudioSegNone(vodFS fs.FS, a *asset, recipe audioRecipe) (*mp4.MediaSegment, error) {
	return nil, nil
}

func vAssetFracMS() *asset {
	a := vAsset_testpic_2s()
	v := a.Reps["V300"]
	v.MediaTimescale = 30000
	v.Segments = []Segment{{StartTime: 0, EndTime: 75075, Nr: 1}, {StartTime: 75075, EndTime: 150150, Nr: 2}}
	a.LoopDurMS = 5005
	a.SegmentDurMS = 2502
	a.refRep = v
	return a
}

func vH_C03_served_fracms()    { vC03Served(vAssetFracMS()) }
func vH_C03_served_testpic2s() { vC03Served(vAsset_testpic_2s()) }

func vC03Served(a *asset) {
	vPrepareRegexps(a)
	rep := a.Reps["A48"]
	vLoadInit(rep)
	ref := a.refRep
	refTs, aTs := ref.MediaTimescale, rep.MediaTimescale
	frame := int(*rep.ConstantSampleDuration)
	startNr := vInt("startNr", 0, 1<<20)
	n := vInt("n", 0, 1<<24)
	cfg := vCfg(0, startNr, 60)
	cfg.AvailabilityTimeOffsetS = vInf()
	segID := startNr + n
	segPart := vSegName(rep.MediaURI, segID)
	so, err := createAudioSegment(os.DirFS("testdata/assets"), a, cfg, segPart, 0, rep, segID)
	vAssert("C03.served.ok", err == nil)
	if err != nil {
		return
	}
	refStart, refEnd := vSegStartTicks(a, ref, n), vSegEndTicks(a, ref, n)
	s := int(so.meta.newTime)
	e := s + int(so.meta.newDur)
	vAssert("C03.served.number", int(so.meta.newNr) == startNr+n)
	vAssert("C03.served.start.frame-aligned", s%frame == 0)
	vAssert("C03.served.start.not-early", s*refTs >= refStart*aTs)
	vAssert("C03.served.start.less-than-a-frame-late", (s-frame)*refTs < refStart*aTs)
	vAssert("C03.served.end.frame-aligned", e%frame == 0)
	vAssert("C03.served.end.not-early", e*refTs >= refEnd*aTs)
	vAssert("C03.served.end.less-than-a-frame-late", (e-frame)*refTs < refEnd*aTs)
	vReach("C03.served.end")
}

// calcAudioTimeFromRef on ANY reference time (not only segment boundaries of the bundled assets) and a table of
// reference timescales incl. 59.94 fps grids (60000) whose conversion to 48 kHz is not an integer: the result is the
// first audio frame boundary at or after the reference time, compared exactly by cross-multiplication.
func init() {
	vHarnesses["vH_C03_audio_boundary_kernel"] = vH_C03_audio_boundary_kernel
}

func vH_C03_audio_boundary_kernel() {
	refTs := [5]int{90000, 60000, 30000, 12800, 1000}[vConc(vInt("refTsIdx", 0, 4))]
	frame := [2]int{1024, 1536}[vConc(vInt("frameIdx", 0, 1))]
	const audioTs = 48000
	refTime := vInt("refTime", 0, 1<<40)
	got := int(calcAudioTimeFromRef(uint64(refTime), uint64(refTs), uint64(frame), audioTs))
	vAssert("C03.kernel.on-frame-grid", got%frame == 0)
	vAssert("C03.kernel.at-or-after-reference", got*refTs >= refTime*audioTs)
	vAssert("C03.kernel.less-than-one-frame-after", (got-frame)*refTs < refTime*audioTs)
	vReach("C03.kernel.end")
}
