//go:build verif

package app

import (
	"io/fs"
	"os"
	"strconv"
	"strings"

	"github.com/Eyevinn/mp4ff/bits"
	"github.com/Eyevinn/mp4ff/mp4"
)

// C03 (frame identity): the real createAudioSegment INCLUDING createAudioSeg (sample-interval computation and sample
// slicing) for the bundled AAC track of testpic_2s (94+94+94+93 frames per 8 s loop): output segment n consists of
// exactly (end-start)/1024 frames, and frame i is VoD frame (first frame of the segment + i) mod 375 of the looped
// track - no frame lost, none duplicated, across loop wraps. The position inside the loop (n mod 4) is concrete per
// path, the loop count and start number are symbolic. Under symbolic execution the file read / mp4 decoder / sample
// extraction return frames tagged (segment, index) and the final segment assembly records the output list; natively
// the real files are read and frames are compared by the CRC-32 of their payload.

func init() {
	vHarnesses["vH_C03_frames_testpic2s"] = vH_C03_frames_testpic2s
}

var vAudioSegFrames = [4]int{94, 94, 94, 93}
var vCurAudioSeg int
var vOutTags []int
var vOutSeqNr, vOutTime int

func vStubReadFileFrames(fsys fs.FS, name string) ([]byte, error) {
	parts := strings.Split(name, "/")
	nrStr, _, _ := strings.Cut(parts[len(parts)-1], ".")
	k, err := strconv.Atoi(nrStr)
	if err != nil {
		return nil, fs.ErrNotExist
	}
	k = vConc(k) // which VoD segment file: concrete per path
	if k < 1 || k > 4 {
		return nil, fs.ErrNotExist
	}
	vCurAudioSeg = k - 1
	return []byte{0}, nil
}

func vStubDecodeAudio(sr bits.SliceReader, options ...mp4.Option) (*mp4.File, error) {
	tfdt := &mp4.TfdtBox{}
	trun := &mp4.TrunBox{}
	traf := &mp4.TrafBox{Tfhd: &mp4.TfhdBox{}, Tfdt: tfdt, Trun: trun}
	moof := &mp4.MoofBox{Mfhd: &mp4.MfhdBox{}, Traf: traf}
	seg := &mp4.MediaSegment{Fragments: []*mp4.Fragment{{Moof: moof, Mdat: &mp4.MdatBox{}}}}
	return &mp4.File{Segments: []*mp4.MediaSegment{seg}}, nil
}

func vStubGetFullSamplesFrames(f *mp4.Fragment, trex *mp4.TrexBox) ([]mp4.FullSample, error) {
	n := vAudioSegFrames[vCurAudioSeg]
	out := make([]mp4.FullSample, n)
	for j := 0; j < n; j++ {
		out[j] = mp4.FullSample{Sample: mp4.Sample{Dur: 1024, Size: uint32(1000*vCurAudioSeg + j)}}
	}
	return out, nil
}

func vStubResetSegment(seg *mp4.MediaSegment, fss []mp4.FullSample, seqNr uint32, baseMediaDecodeTime uint64) {
	vOutTags = make([]int, len(fss))
	for i := range fss {
		vOutTags[i] = int(fss[i].Size)
	}
	vOutSeqNr, vOutTime = int(seqNr), int(baseMediaDecodeTime)
}

func vStubFrameTags(seg *mp4.MediaSegment, rep *RepData) (tags []int, seqNr, bmdt int) {
	return vOutTags, vOutSeqNr, vOutTime
}

func vStubVodFrameTag(a *asset, rep *RepData, k, j int) int { return 1000*k + j }

func vH_C03_frames_testpic2s() {
	a := vAsset_testpic_2s()
	vPrepareRegexps(a)
	rep := a.Reps["A48"]
	vLoadInit(rep)
	ref := a.refRep
	refTs, aTs := ref.MediaTimescale, rep.MediaTimescale
	const frame, loopFrames = 1024, 375
	startNr := vInt("startNr", 0, 1<<20)
	r := vConc(vInt("r", 0, 3))
	q := vInt("q", 0, 1<<22)
	n := 4*q + r
	cfg := vCfg(0, startNr, 60)
	cfg.AvailabilityTimeOffsetS = vInf()
	segID := startNr + n
	segPart := vSegName(rep.MediaURI, segID)
	vOutTags = nil
	so, err := createAudioSegment(os.DirFS("testdata/assets"), a, cfg, segPart, 0, rep, segID)
	vAssert("C03.frames.ok", err == nil)
	if err != nil {
		return
	}
	tags, seqNr, bmdt := vFrameTags(so.seg, rep)
	// where the segment starts: first frame boundary at or after the video segment start
	start := vAudioTimeOracle(vSegStartTicks(a, ref, n), refTs, frame, aTs)
	end := vAudioTimeOracle(vSegEndTicks(a, ref, n), refTs, frame, aTs)
	vAssert("C03.frames.sequence-number", seqNr == startNr+n)
	vAssert("C03.frames.decode-time", bmdt == start)
	vAssert("C03.frames.count", len(tags) == (end-start)/frame)
	// index of the first frame in the looped track: depends on the position in the loop only (8 s = 375 frames exactly)
	firstR := (r*2*aTs + frame - 1) / frame % loopFrames
	vAssert("C03.frames.first-frame-position", (start/frame)%loopFrames == firstR)
	first := firstR
	for i := range tags {
		f := (first + i) % loopFrames
		k, j := 0, f
		for j >= vAudioSegFrames[k] {
			j -= vAudioSegFrames[k]
			k++
		}
		vAssert("C03.frames.frame-is-the-vod-frame-at-that-position", tags[i] == vVodFrameTag(a, rep, k, j))
	}
	vReach("C03.frames.end")
}
