//go:build verif

package app

// C04 (continued): the request path findSegMeta (dispatch on MPD type, audio via the reference
// representation) for audio and video, and "numbers below startNumber give 404".

func init() {
	vHarnesses["vH_C04_path_testpic2s_A48_nr"] = vH_C04_path_testpic2s_A48_nr
	vHarnesses["vH_C04_path_testpic2s_A48_time"] = vH_C04_path_testpic2s_A48_time
	vHarnesses["vH_C04_path_testpic2s_V300_nr"] = vH_C04_path_testpic2s_V300_nr
	vHarnesses["vH_C04_path_testpic2s_V300_time"] = vH_C04_path_testpic2s_V300_time
	vHarnesses["vH_C04_path_wave2997_A48_time"] = vH_C04_path_wave2997_A48_time
	vHarnesses["vH_C04_path_bbb_ac3_time"] = vH_C04_path_bbb_ac3_time
	vHarnesses["vH_C09_early_testpic2s_A48_time"] = vH_C09_early_testpic2s_A48_time
	vHarnesses["vH_C09_early_testpic2s_A48_nr"] = vH_C09_early_testpic2s_A48_nr
	vHarnesses["vH_C09_early_testpic2s_V300_time"] = vH_C09_early_testpic2s_V300_time
	vHarnesses["vH_C09_early_testpic2s_V300_nr"] = vH_C09_early_testpic2s_V300_nr
	vHarnesses["vH_C04_below_testpic2s_V300"] = vH_C04_below_testpic2s_V300
	vHarnesses["vH_C04_below_testpic2s_A48"] = vH_C04_below_testpic2s_A48
	vHarnesses["vH_C04_below_testpic2s_A48_tlnr"] = vH_C04_below_testpic2s_A48_tlnr
}

func vH_C04_path_testpic2s_A48_nr()    { vC04Path(vAsset_testpic_2s(), "A48", 0) }
func vH_C04_path_testpic2s_A48_time()  { vC04Path(vAsset_testpic_2s(), "A48", 1) }
func vH_C04_path_testpic2s_V300_nr()   { vC04Path(vAsset_testpic_2s(), "V300", 2) }
func vH_C04_path_testpic2s_V300_time() { vC04Path(vAsset_testpic_2s(), "V300", 1) }
func vH_C04_path_wave2997_A48_time() {
	vC04Path(vAsset_WAVE_vectors_cfhd_sets_14_985_29_97_59_94_t1_2022_10_17(), "A48", 1)
}
func vH_C04_path_bbb_ac3_time()        { vC04Path(vAsset_bbb_hevc_ac3_8s(), "2", 1) }
func vH_C09_early_testpic2s_A48_time()  { vC04PathAto(vAsset_testpic_2s(), "A48", 1, true) }
func vH_C09_early_testpic2s_A48_nr()    { vC04PathAto(vAsset_testpic_2s(), "A48", 0, true) }
func vH_C09_early_testpic2s_V300_time() { vC04PathAto(vAsset_testpic_2s(), "V300", 1, true) }
func vH_C09_early_testpic2s_V300_nr()   { vC04PathAto(vAsset_testpic_2s(), "V300", 0, true) }
func vH_C04_below_testpic2s_V300()     { vC04Below(vAsset_testpic_2s(), "V300", 0) }
func vH_C04_below_testpic2s_A48()      { vC04Below(vAsset_testpic_2s(), "A48", 0) }
func vH_C04_below_testpic2s_A48_tlnr() { vC04Below(vAsset_testpic_2s(), "A48", 2) }

// mode: 0 = $Number$, 1 = SegmentTimeline $Time$, 2 = SegmentTimeline $Number$
func vC04Path(a *asset, repID string, mode int) { vC04PathAto(a, repID, mode, false) }

// lowLatency: availabilityTimeOffset is a symbolic whole number of milliseconds in 1 .. segment duration - 1 (chunked
// delivery, C09): a request before AST + segment end - offset is refused as too early (1 ms slack for the float
// arithmetic of the real code), at or after it the segment is available.
func vC04PathAto(a *asset, repID string, mode int, lowLatency bool) {
	vPrepareRegexps(a)
	rep := a.Reps[repID]
	ref := a.refRep
	refTs := ref.MediaTimescale
	startNr := vInt("startNr", 0, 1<<20)
	var startS, tsbd, n, now1, now2 int
	if lowLatency {
		// smaller ranges (solver time of the audio/time path): start < 2^24 s, n < 2^16, now < 2^36 ms
		startS = vInt("startS", 0, 1<<24)
		tsbd = vInt("tsbd", 0, 172800)
		n = vInt("n", 0, 1<<16)
		now1 = vInt("now1", 0, 1<<36)
		now2 = vInt("now2", 0, 1<<36)
	} else {
		startS = vInt("startS", 0, 1<<32-1)
		tsbd = vInt("tsbd", 0, 172800)
		n = vInt("n", 0, 1<<26)
		now1 = vInt("now1", 0, 1<<42)
		now2 = vInt("now2", 0, 1<<42)
	}
	vAssume(now1 <= now2)
	cfg := vCfg(startS, startNr, tsbd)
	switch mode {
	case 1:
		cfg.SegTimelineFlag = true
	case 2:
		cfg.SegTimelineNrFlag = true
	}
	atoMS := 0
	if lowLatency {
		atoMS = vInt("atoMS", 1, a.SegmentDurMS-1)
		cfg.AvailabilityTimeOffsetS = float64(atoMS) / 1000.0
		cfg.ChunkDurS = Ptr(float64(a.SegmentDurMS-atoMS) / 1000.0)
	}
	// The segment as the MPD would address it
	segID := startNr + n
	if mode == 1 {
		if rep.ContentType == "audio" {
			segID = vAudioTimeOracle(vSegStartTicks(a, ref, n), refTs, int(rep.sampleDur()), rep.MediaTimescale)
		} else {
			segID = vSegStartTicks(a, rep, n)
		}
	}
	segPart := vSegName(rep.MediaURI, segID)
	vStubRep, vStubSegID = rep, segID
	_, e1 := findSegMeta(a, cfg, segPart, now1)
	_, e2 := findSegMeta(a, cfg, segPart, now2)
	p1, p2 := vPhase(e1), vPhase(e2)
	vAssert("C04.path.phase-known-1", p1 <= 2)
	vAssert("C04.path.phase-known-2", p2 <= 2)
	vAssert("C04.path.monotone", p1 <= p2)
	// availability instant: AST + end of (reference) segment n
	timing := rep
	if rep.ContentType == "audio" {
		timing = ref
	}
	ts := timing.MediaTimescale
	endTicks := vSegEndTicks(a, timing, n)
	lhs := (now1 - 1000*startS + atoMS) * ts
	rhs := 1000 * endTicks
	if lowLatency {
		if lhs >= rhs+ts {
			vAssert("C09.path.available-at-advertised-time+1ms", p1 != 0)
		}
		if lhs+ts <= rhs {
			vAssert("C09.path.too-early-before-advertised-time-1ms", p1 == 0)
		}
	} else if lhs >= rhs {
		vAssert("C04.path.available-at-A", p1 != 0)
	} else {
		vAssert("C04.path.too-early-before-A", p1 == 0)
	}
	if lhs <= rhs+1000*tsbd*ts {
		vAssert("C04.path.not-gone-within-tsbd", p1 != 2)
	}
	vReach("C04.path.end")
}

// Segment numbers below startNumber give 404 (errNotFound) on the request path.
func vC04Below(a *asset, repID string, mode int) {
	vPrepareRegexps(a)
	rep := a.Reps[repID]
	startNr := vInt("startNr", 1, 1<<20)
	startS := vInt("startS", 0, 1<<32-1)
	k := vInt("k", 1, 1<<20)
	now := vInt("now1", 0, 1<<42)
	vAssume(k <= startNr)
	cfg := vCfg(startS, startNr, 60)
	if mode == 2 {
		cfg.SegTimelineNrFlag = true
	}
	segID := startNr - k
	segPart := vSegName(rep.MediaURI, segID)
	vStubRep, vStubSegID = rep, segID
	_, err := findSegMeta(a, cfg, segPart, now)
	vAssert("C04.below-startNr-is-404", vPhase(err) == 3)
	vReach("C04.below.end")
}
