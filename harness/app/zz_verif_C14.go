//go:build verif

package app

// C14 — fault-injection parameters hit exactly the scheduled requests.

func init() {
	vHarnesses["vH_C14_status2_testpic2s_c7_c30"] = vH_C14_status2_testpic2s_c7_c30
	vHarnesses["vH_C14_status2_testpic2s_c10_c60"] = vH_C14_status2_testpic2s_c10_c60
	vHarnesses["vH_C14_status2_testpic2s_c30_c7"] = vH_C14_status2_testpic2s_c30_c7
	vHarnesses["vH_C14_status2_audio_c10_c60"] = vH_C14_status2_audio_c10_c60
	vHarnesses["vH_C14_status2_alt_c10_c60"] = vH_C14_status2_alt_c10_c60
	vHarnesses["vH_C14_status_testpic2s_c30"] = vH_C14_status_testpic2s_c30
	vHarnesses["vH_C14_status_testpic2s_c7"] = vH_C14_status_testpic2s_c7
	vHarnesses["vH_C14_status_testpic2s_c1"] = vH_C14_status_testpic2s_c1
	vHarnesses["vH_C14_status_alt_c30"] = vH_C14_status_alt_c30
	vHarnesses["vH_C14_status_audio_c30"] = vH_C14_status_audio_c30
	vHarnesses["vH_C14_status_repfilter"] = vH_C14_status_repfilter
	vHarnesses["vH_C14_traffic_len3"] = vH_C14_traffic_len3
	vHarnesses["vH_C14_traffic_len4"] = vH_C14_traffic_len4
	vHarnesses["vH_C14_traffic_len5"] = vH_C14_traffic_len5
	vHarnesses["vH_C14_traffic_len6"] = vH_C14_traffic_len6
	vHarnesses["vH_C14_traffic_3groups"] = vH_C14_traffic_3groups
	vHarnesses["vH_C14_traffic_4groups"] = vH_C14_traffic_4groups
}

func vH_C14_traffic_3groups() { vC14TrafficGroups(3) }
func vH_C14_traffic_4groups() { vC14TrafficGroups(4) }

var vLetters = [4]byte{'u', 'd', 's', 'h'}

// vC14TrafficGroups: well-formed patterns of g groups <letter><digit><digit> with arbitrary letters and
// durations 1..99 s: every second of the cycle gets the state of the interval that contains it.
func vC14TrafficGroups(g int) {
	buf := make([]byte, 0, 3*g)
	var st [4]lossState
	var du [4]int
	total := 0
	for i := 0; i < g; i++ {
		l := vLetters[vConc(vInt("l"+string(rune('0'+i)), 0, 3))]
		d1 := vInt("a"+string(rune('0'+i)), 0, 9)
		d2 := vInt("b"+string(rune('0'+i)), 0, 9)
		vAssume(d1+d2 >= 1)
		buf = append(buf, l, byte('0'+d1), byte('0'+d2))
		st[i], du[i] = vStateOf(l), 10*d1+d2
		total += du[i]
	}
	li, err := CreateLossItvls(string(buf))
	vAssert("C14.groups.accepted", err == nil)
	if err != nil {
		return
	}
	vAssert("C14.groups.cycle", li.CycleDurS() == total)
	nowS := vInt("nowS", 0, 1<<40)
	got := li.StateAt(nowS)
	rest := nowS % total
	want := lossUnknown
	acc := 0
	found := false
	for i := 0; i < g; i++ {
		acc += du[i]
		if !found && rest < acc {
			want = st[i]
			found = true
		}
	}
	vAssert("C14.groups.state", got == want)
	vReach("C14.groups.end")
}

func vH_C14_status_testpic2s_c30() { vC14Status(vAsset_testpic_2s(), "V300", 30, nil) }
func vH_C14_status_testpic2s_c7()  { vC14Status(vAsset_testpic_2s(), "V300", 7, nil) }
func vH_C14_status_testpic2s_c1()  { vC14Status(vAsset_testpic_2s(), "V300", 1, nil) }
func vH_C14_status_alt_c30()       { vC14Status(vAsset_testpic_alt_seg_dur_stl(), "V300", 30, nil) }
func vH_C14_status_audio_c30()     { vC14Status(vAsset_testpic_2s(), "A48", 30, nil) }
func vH_C14_status_repfilter()     { vC14Status(vAsset_testpic_2s(), "A48", 30, []string{"V300"}) }

// vC14Status: a media-segment request receives the configured code iff its representation matches and it
// is the segment with relative sequence number rsq among the segments starting in its cycle
// (cycles of `cycle` seconds counted from the start of the stream).
func vC14Status(a *asset, repID string, cycle int, reps []string) {
	vPrepareRegexps(a)
	rep := a.Reps[repID]
	ref := rep
	if rep.ContentType == "audio" {
		ref = a.refRep // audio follows the reference (video) segments
	}
	ts := ref.MediaTimescale
	startNr := vInt("startNr", 0, 1<<20)
	startS := vInt("startS", 0, 1<<32-1)
	n := vInt("n", 0, 1<<26)
	rsq := vInt("rsq", 0, 64)
	extra := vInt("extra", 0, 60000)
	cfg := vCfg(startS, startNr, 60)
	cfg.SegStatusCodes = []SegStatusCodes{{Cycle: cycle, Rsq: rsq, Code: 404, Reps: reps}}
	// request at an instant where the segment is available
	endTicks := vSegEndTicks(a, ref, n)
	now := 1000*startS + (1000*endTicks+ts-1)/ts + extra
	segID := startNr + n
	segPart := vSegName(rep.MediaURI, segID)
	vStubRep, vStubSegID = rep, segID
	code, err := calcStatusCode(cfg, a, segPart, now)
	vAssert("C14.status.no-error", err == nil)

	// oracle
	cycleTicks := cycle * ts
	c := vSegStartTicks(a, ref, n) / cycleTicks // cycle index of this segment
	j := n - rsq                                // candidate first segment of the cycle
	hit := false
	if j >= 0 {
		if vSegStartTicks(a, ref, j) >= c*cycleTicks {
			if j == 0 {
				hit = true
			} else if vSegStartTicks(a, ref, j-1) < c*cycleTicks {
				hit = true
			}
		}
	}
	filtered := len(reps) > 0 && !repInReps(rep.ID, reps)
	if err == nil {
		if hit && !filtered {
			vAssert("C14.status.hit-gets-code", code == 404)
		} else {
			vAssert("C14.status.others-normal", code == 0)
		}
	}
	vReach("C14.status.end")
}

// ---- several simultaneous patterns: the first pattern (in list order) that hits decides, each pattern on its own cycle ----

func vH_C14_status2_testpic2s_c10_c60() { vC14Status2(vAsset_testpic_2s(), "V300", 10, 60) }
func vH_C14_status2_testpic2s_c7_c30()  { vC14Status2(vAsset_testpic_2s(), "V300", 7, 30) }
func vH_C14_status2_testpic2s_c30_c7()  { vC14Status2(vAsset_testpic_2s(), "V300", 30, 7) }
func vH_C14_status2_audio_c10_c60()     { vC14Status2(vAsset_testpic_2s(), "A48", 10, 60) }
func vH_C14_status2_alt_c10_c60()       { vC14Status2(vAsset_testpic_alt_seg_dur_stl(), "V300", 10, 60) }

// vC14Hit: segment n is the rsq-th (0-based) of the segments of ref that start in its cycle of `cycle` seconds.
func vC14Hit(a *asset, ref *RepData, n, cycle, rsq int) bool {
	cycleTicks := cycle * ref.MediaTimescale
	c := vSegStartTicks(a, ref, n) / cycleTicks
	j := n - rsq
	if j < 0 {
		return false
	}
	if vSegStartTicks(a, ref, j) < c*cycleTicks {
		return false
	}
	if j == 0 {
		return true
	}
	return vSegStartTicks(a, ref, j-1) < c*cycleTicks
}

func vC14Status2(a *asset, repID string, cycle1, cycle2 int) {
	vPrepareRegexps(a)
	rep := a.Reps[repID]
	ref := rep
	if rep.ContentType == "audio" {
		ref = a.refRep
	}
	ts := ref.MediaTimescale
	startNr := vInt("startNr", 0, 1<<20)
	startS := vInt("startS", 0, 1<<32-1)
	n := vInt("n", 0, 1<<26)
	rsq1 := vConc(vInt("rsq1", 0, 2))
	rsq2 := vConc(vInt("rsq2", 0, 2))
	extra := vInt("extra", 0, 60000)
	cfg := vCfg(startS, startNr, 60)
	cfg.SegStatusCodes = []SegStatusCodes{{Cycle: cycle1, Rsq: rsq1, Code: 404}, {Cycle: cycle2, Rsq: rsq2, Code: 410}}
	endTicks := vSegEndTicks(a, ref, n)
	now := 1000*startS + (1000*endTicks+ts-1)/ts + extra
	segID := startNr + n
	segPart := vSegName(rep.MediaURI, segID)
	vStubRep, vStubSegID = rep, segID
	code, err := calcStatusCode(cfg, a, segPart, now)
	vAssert("C14.status2.no-error", err == nil)
	if err == nil {
		hit1 := vC14Hit(a, ref, n, cycle1, rsq1)
		hit2 := vC14Hit(a, ref, n, cycle2, rsq2)
		if hit1 {
			vAssert("C14.status2.first-pattern-code", code == 404)
		} else if hit2 {
			vAssert("C14.status2.second-pattern-code", code == 410)
		} else {
			vAssert("C14.status2.others-normal", code == 0)
		}
	}
	vReach("C14.status2.end")
}

func vH_C14_traffic_len3() { vC14Traffic(3) }
func vH_C14_traffic_len4() { vC14Traffic(4) }
func vH_C14_traffic_len5() { vC14Traffic(5) }
func vH_C14_traffic_len6() { vC14Traffic(6) }

func vIsStateLetter(c byte) bool { return c == 'u' || c == 'd' || c == 's' || c == 'h' }

func vStateOf(c byte) lossState {
	switch c {
	case 'u':
		return lossNo
	case 'd':
		return loss404
	case 's':
		return lossSlow
	}
	return lossHang
}

// vC14Traffic: for an arbitrary pattern of k bytes, an accepted pattern defines a non-empty cyclic
// schedule and StateAt(s) is the state of the interval containing s mod cycle.
func vC14Traffic(k int) {
	pat := vBytes("p", k)
	nowS := vInt("nowS", 0, 1<<40)
	li, err := CreateLossItvls(pat)

	// independent parse: groups <letter><digits>; the duration of a group is its decimal value
	const maxG = 6
	var gState [maxG]lossState
	var gDur [maxG]int
	ng := 0
	wellFormed := true
	sawLetter := false
	for i := 0; i < k; i++ {
		ch := pat[i]
		if vIsStateLetter(ch) {
			gState[ng] = vStateOf(ch)
			gDur[ng] = 0
			ng++
			sawLetter = true
		} else if ch >= '0' && ch <= '9' {
			if sawLetter {
				gDur[ng-1] = gDur[ng-1]*10 + int(ch-'0')
			}
			// digits before the first letter carry no state: the pattern is not a valid schedule
			if !sawLetter {
				wellFormed = false
			}
		} else {
			wellFormed = false
		}
	}
	if !sawLetter {
		wellFormed = false
	}
	total := 0
	for g := 0; g < ng; g++ {
		if gDur[g] == 0 {
			wellFormed = false
		}
		total += gDur[g]
	}
	if err != nil {
		vAssert("C14.traffic.rejected-only-if-malformed", !wellFormed)
		vReach("C14.traffic.end-rejected")
		return
	}
	// an accepted pattern must define a usable schedule (the handler computes nowS % cycle)
	vAssert("C14.traffic.accepted-has-cycle", li.CycleDurS() > 0)
	if wellFormed {
		vAssert("C14.traffic.cycle", li.CycleDurS() == total)
		st := li.StateAt(nowS)
		rest := nowS % total
		want := lossUnknown
		acc := 0
		found := false
		for g := 0; g < ng; g++ {
			acc += gDur[g]
			if !found && rest < acc {
				want = gState[g]
				found = true
			}
		}
		vAssert("C14.traffic.state", st == want)
	}
	vReach("C14.traffic.end")
}
