//go:build verif

package app

import (
	"net/http"
	"strings"
	"text/template"

	"github.com/Eyevinn/mp4ff/mp4"
)

// C12 (glue): the whole writeTimeSubsMediaSegment for a generated stpp / wvtt segment request "time<kind>-<lang>/<id>.m4s":
// the segment written has the number, decode time (ms) and duration (ms) of the reference video segment it is asked
// for - for uniform and non-uniform segment durations, by $Number$ and by $Time$. Under symbolic execution the two
// segment builders are replaced by recording stubs (their content is decided by vH_C12_cues_* / vH_C12_wvtt);
// natively the real segment is built, written and decoded again.

func init() {
	vHarnesses["vH_C12_write_wvtt_testpic2s_nr"] = vH_C12_write_wvtt_testpic2s_nr
	vHarnesses["vH_C12_write_stpp_wave2997_time"] = vH_C12_write_stpp_wave2997_time
	vHarnesses["vH_C12_write_wvtt_alt_time"] = vH_C12_write_wvtt_alt_time
	vHarnesses["vH_C12_write_stpp_alt_nr"] = vH_C12_write_stpp_alt_nr
}

func vH_C12_write_wvtt_testpic2s_nr() { vC12Write(vAsset_testpic_2s(), "timewvtt", 0) }
func vH_C12_write_stpp_wave2997_time() {
	vC12Write(vAsset_WAVE_vectors_cfhd_sets_14_985_29_97_59_94_t1_2022_10_17(), "timestpp", 1)
}
func vH_C12_write_wvtt_alt_time() { vC12Write(vAsset_testpic_alt_seg_dur_stl(), "timewvtt", 1) }
func vH_C12_write_stpp_alt_nr()   { vC12Write(vAsset_testpic_alt_seg_dur_stl(), "timestpp", 2) }

var vSubsRec struct {
	calls         int
	nr, bmdt, dur int
	utcMS, cueDur int
}

func vStubCreateSubsWvtt(nr uint32, baseMediaDecodeTime uint64, dur uint32, lang string, utcTimeMS uint64, timeSubsDurMS, region int) (*mp4.MediaSegment, error) {
	vSubsRec.calls++
	vSubsRec.nr, vSubsRec.bmdt, vSubsRec.dur = int(nr), int(baseMediaDecodeTime), int(dur)
	vSubsRec.utcMS, vSubsRec.cueDur = int(utcTimeMS), timeSubsDurMS
	return &mp4.MediaSegment{Styp: &mp4.StypBox{}}, nil
}

func vStubCreateSubsStpp(nr uint32, baseMediaDecodeTime uint64, dur uint32, lang string, utcTimeMS uint64, tt *template.Template, timeSubsDurMS, region int) (*mp4.MediaSegment, error) {
	return vStubCreateSubsWvtt(nr, baseMediaDecodeTime, dur, lang, utcTimeMS, timeSubsDurMS, region)
}

func vStubTextTemplates() *template.Template { return nil }

func vStubHeaderSetC12(h http.Header, key, val string) {}

func vStubSegSize(s *mp4.MediaSegment) uint64 { return 0 }

// what was written: number, decode time and total sample duration (under symbolic execution: what the builder got)
func vStubSubsWritten(w *vHW2) (nr, bmdt, dur int) { return vSubsRec.nr, vSubsRec.bmdt, vSubsRec.dur }

type vHW2 struct {
	hdr  http.Header
	data []byte
}

func (w *vHW2) Header() http.Header         { return w.hdr }
func (w *vHW2) Write(b []byte) (int, error) { w.data = append(w.data, b...); return len(b), nil }
func (w *vHW2) WriteHeader(s int)           {}

// mode: 0 $Number$, 1 SegmentTimeline $Time$, 2 SegmentTimeline $Number$
func vC12Write(a *asset, prefix string, mode int) {
	ref := a.refRep
	ts := ref.MediaTimescale
	startNr := vInt("startNr", 0, 1<<20)
	startS := vInt("startS", 0, 1<<32-1)
	n := vInt("n", 0, 1<<26)
	cfg := vCfg(startS, startNr, 60)
	if strings.HasSuffix(prefix, "stpp") {
		cfg.TimeSubsStpp = []string{"en"}
	} else {
		cfg.TimeSubsWvtt = []string{"en"}
	}
	startTicks, endTicks := vSegStartTicks(a, ref, n), vSegEndTicks(a, ref, n)
	vAssume(1000*startTicks%ts == 0) // exact ms values (these tables have segment boundaries on whole milliseconds)
	vAssume(1000*endTicks%ts == 0)
	startMS, endMS := 1000*startTicks/ts, 1000*endTicks/ts
	id := startNr + n
	switch mode {
	case 1:
		cfg.SegTimelineFlag = true
		id = startMS
	case 2:
		cfg.SegTimelineNrFlag = true
	}
	now := 1000*startS + endMS + vInt("extra", 0, 30000)
	segPart := vStrf(prefix+"-en/%d.m4s", id)
	w := &vHW2{hdr: http.Header{}}
	tt := vTextTemplates()
	isSubs, err := writeTimeSubsMediaSegment(w, cfg, a, segPart, now, tt, false)
	vAssert("C12.write.recognised", isSubs)
	vAssert("C12.write.ok", err == nil)
	if err == nil {
		nr, bmdt, dur := vSubsWritten(w)
		vAssert("C12.write.number", nr == startNr+n)
		vAssert("C12.write.decode-time-ms", bmdt == startMS)
		vAssert("C12.write.duration-ms", dur == endMS-startMS)
	}
	vReach("C12.write.end")
}
