//go:build verif

package app

import (
	"bytes"
	"context"
	"io"
	"log/slog"
	"net/http"
	"os"
	"sort"
	"strings"
	"sync"
	"time"

	"github.com/Eyevinn/mp4ff/mp4"
)

// native side of the C16 harness: the real session against a recording HTTP transport.

type vIngTransport struct {
	mu   sync.Mutex
	reqs []vIngReq
}

type vIngReq struct {
	path string
	body []byte
}

func (t *vIngTransport) RoundTrip(r *http.Request) (*http.Response, error) {
	var body []byte
	if r.Body != nil {
		body, _ = io.ReadAll(r.Body)
		r.Body.Close()
	}
	t.mu.Lock()
	t.reqs = append(t.reqs, vIngReq{path: r.URL.Path, body: body})
	t.mu.Unlock()
	return &http.Response{StatusCode: 200, Body: io.NopCloser(bytes.NewReader(nil)), Header: http.Header{}, Request: r}, nil
}

func (t *vIngTransport) mediaCount() int {
	t.mu.Lock()
	defer t.mu.Unlock()
	n := 0
	for _, r := range t.reqs {
		if !strings.Contains(r.path, "/init.") {
			n++
		}
	}
	return n
}

var vIngAM *assetMgr

func vIngAsset() *asset {
	if vIngAM == nil {
		vIngAM = newAssetMgr(os.DirFS("testdata/assets"), "", false)
		if err := vIngAM.discoverAssets(slog.Default()); err != nil {
			panic(err)
		}
	}
	a, ok := vIngAM.findAsset("testpic_2s")
	if !ok {
		panic("testpic_2s not found")
	}
	return a
}

func vIngMgr(a *asset) *cmafIngesterMgr {
	s := &Server{Cfg: &ServerConfig{}, assetMgr: vIngAM}
	return &cmafIngesterMgr{s: s, ingesters: map[uint64]*cmafIngester{}, cancels: map[uint64]context.CancelFunc{}, state: ingesterStateRunning}
}

func vIngestStep(c *cmafIngester, nr, nowMS int) []vIngRec {
	tr := &vIngTransport{}
	old := http.DefaultClient.Transport
	http.DefaultClient.Transport = tr
	defer func() { http.DefaultClient.Transport = old }()
	c.log = slog.Default()
	err := c.sendMediaSegments(context.Background(), nr, nowMS, false)
	vAssert("C16.step.no-error", err == nil)
	return vIngDecode(c, tr)
}

func vIngestRun(c *cmafIngester, k int, cancelAtEnd bool) []vIngRec {
	tr := &vIngTransport{}
	old := http.DefaultClient.Transport
	http.DefaultClient.Transport = tr
	defer func() { http.DefaultClient.Transport = old }()
	c.log = slog.Default()
	c.nextSegTrigger = make(chan struct{})
	ctx, cancel := context.WithCancel(context.Background())
	defer cancel()
	done := make(chan struct{})
	var crashed any
	go func() {
		defer func() {
			crashed = recover()
			close(done)
		}()
		c.start(ctx)
	}()
	defer func() {
		if crashed != nil {
			panic(crashed) // a crash of the session goroutine is reported as a crash of the harness
		}
	}()
	finished := false
	for i := 0; i < k && !finished; i++ {
		select {
		case c.nextSegTrigger <- struct{}{}:
		case <-done:
			finished = true
		case <-time.After(5 * time.Second):
			panic("vIngestRun: session does not take the step trigger")
		}
	}
	if !finished {
		// let the last step complete: the request count stops growing
		last, stable := -1, 0
		for stable < 10 {
			select {
			case <-done:
				finished = true
				stable = 10
			case <-time.After(20 * time.Millisecond):
			}
			n := tr.mediaCount()
			if n == last {
				stable++
			} else {
				last, stable = n, 0
			}
		}
	}
	if !finished && cancelAtEnd {
		cancel()
		select {
		case <-done:
		case <-time.After(5 * time.Second):
			panic("vIngestRun: session does not stop when cancelled")
		}
	}
	return vIngDecode(c, tr)
}

// vIngDecode turns the request log into records (inits in arrival order, media ordered by number and representation).
func vIngDecode(c *cmafIngester, tr *vIngTransport) []vIngRec {
	order := map[string]int{}
	for i, rd := range c.repsData {
		order[rd.repID] = i
	}
	var inits, media []vIngRec
	for _, r := range tr.reqs {
		parts := strings.Split(strings.TrimPrefix(r.path, "/"), "/") // ch/<rep>/<name>
		rep := parts[len(parts)-2]
		if strings.HasPrefix(parts[len(parts)-1], "init") {
			inits = append(inits, vIngRec{init: true, rep: rep})
			continue
		}
		f, err := mp4.DecodeFile(bytes.NewReader(r.body))
		if err != nil || len(f.Segments) == 0 {
			panic("vIngestRun: undecodable media body for " + r.path)
		}
		seg := f.Segments[0]
		rec := vIngRec{rep: rep, nr: int(seg.Fragments[0].Moof.Mfhd.SequenceNumber)}
		if seg.Styp != nil {
			for _, b := range seg.Styp.CompatibleBrands() {
				if b == "lmsg" {
					rec.last = true
				}
			}
		}
		media = append(media, rec)
	}
	// the representations of one step are sent by parallel goroutines: order by number, then representation
	sort.SliceStable(media, func(i, j int) bool {
		if media[i].nr != media[j].nr {
			return media[i].nr < media[j].nr
		}
		return order[media[i].rep] < order[media[j].rep]
	})
	return append(inits, media...)
}
