//go:build verif

package app

import (
	m "github.com/Eyevinn/dash-mpd/mpd"
)

// C05 — the MPD only moves forward, and publishTime identifies its content.

func init() {
	vHarnesses["vH_C05_testpic2s_V300"] = vH_C05_testpic2s_V300
	vHarnesses["vH_C05_wave2997"] = vH_C05_wave2997
	vHarnesses["vH_C05_alt_V300"] = vH_C05_alt_V300
	vHarnesses["vH_C05_syn_irregular3"] = vH_C05_syn_irregular3
	vHarnesses["vH_C05_syn_subsecond"] = vH_C05_syn_subsecond
	vHarnesses["vH_C05_testpic8s"] = vH_C05_testpic8s
	vHarnesses["vH_C05_step_testpic2s_V300"] = vH_C05_step_testpic2s_V300
	vHarnesses["vH_C05_step_wave2997"] = vH_C05_step_wave2997
	vHarnesses["vH_C05_step_syn_subsecond"] = vH_C05_step_syn_subsecond
	vHarnesses["vH_C05_number_testpic2s"] = vH_C05_number_testpic2s
	vHarnesses["vH_C05_one_testpic2s_V300"] = vH_C05_one_testpic2s_V300
	vHarnesses["vH_C05_one_wave2997"] = vH_C05_one_wave2997
	vHarnesses["vH_C05_one_wave25"] = vH_C05_one_wave25
	vHarnesses["vH_C05_one_alt_V300"] = vH_C05_one_alt_V300
	vHarnesses["vH_C05_one_syn_irregular3"] = vH_C05_one_syn_irregular3
	vHarnesses["vH_C05_one_syn_subsecond"] = vH_C05_one_syn_subsecond
	vHarnesses["vH_C05_one_testpic8s"] = vH_C05_one_testpic8s
	vHarnesses["vH_C05_pair1_testpic2s_V300"] = vH_C05_pair1_testpic2s_V300
	vHarnesses["vH_C05_pair1_wave2997"] = vH_C05_pair1_wave2997
	vHarnesses["vH_C05_pair0_testpic2s_V300"] = vH_C05_pair0_testpic2s_V300
	vHarnesses["vH_C05_pair0_wave2997"] = vH_C05_pair0_wave2997
	vHarnesses["vH_C05_step1_testpic2s_V300"] = vH_C05_step1_testpic2s_V300
	vHarnesses["vH_C05_step1_wave2997"] = vH_C05_step1_wave2997
	vHarnesses["vH_C05_step1_syn_subsecond"] = vH_C05_step1_syn_subsecond
}

func vH_C05_one_testpic2s_V300() { vC05One(vAsset_testpic_2s(), "V300", 5) }
func vH_C05_one_wave2997() {
	vC05One(vAsset_WAVE_vectors_cfhd_sets_14_985_29_97_59_94_t1_2022_10_17(), "1", 5)
}
func vH_C05_one_wave25() {
	vC05One(vAsset_WAVE_vectors_cfhd_sets_12_5_25_50_t3_2022_10_17(), "1", 5)
}
func vH_C05_one_alt_V300()         { vC05One(vAsset_testpic_alt_seg_dur_stl(), "V300", 13) }
func vH_C05_one_syn_irregular3()   { vC05One(vAsset_syn_irregular3(), "V1", 5) }
func vH_C05_one_syn_subsecond()    { vC05One(vAsset_syn_subsecond(), "V1", 1) }
func vH_C05_one_testpic8s()        { vC05One(vAsset_testpic_8s(), "V300", 17) }
func vH_C05_pair1_testpic2s_V300() { vC05(vAsset_testpic_2s(), "V300", 1, 0) }
func vH_C05_pair1_wave2997() {
	vC05(vAsset_WAVE_vectors_cfhd_sets_14_985_29_97_59_94_t1_2022_10_17(), "1", 1, 0)
}
func vH_C05_pair0_testpic2s_V300() { vC05(vAsset_testpic_2s(), "V300", 0, 0) }
func vH_C05_pair0_wave2997() {
	vC05(vAsset_WAVE_vectors_cfhd_sets_14_985_29_97_59_94_t1_2022_10_17(), "1", 0, 0)
}
func vH_C05_step1_testpic2s_V300() { vC05(vAsset_testpic_2s(), "V300", 1, 1) }
func vH_C05_step1_wave2997() {
	vC05(vAsset_WAVE_vectors_cfhd_sets_14_985_29_97_59_94_t1_2022_10_17(), "1", 1, 1)
}
func vH_C05_step1_syn_subsecond() { vC05(vAsset_syn_subsecond(), "V1", 0, 1) }

// vC05One: the single-instant part of C05 (publishTime is never in the future and is the instant of the last change).
func vC05One(a *asset, repID string, maxTsbd int) {
	rep := a.Reps[repID]
	ts := rep.MediaTimescale
	startS := vInt("startS", 0, 1<<32-1)
	tsbd := vInt("tsbd", 0, maxTsbd)
	rel1 := vInt("rel1", 0, 1<<41)
	now1 := 1000*startS + rel1
	cfg := vCfg(startS, 0, tsbd)
	cfg.SegTimelineFlag = true
	d := *m.Seconds2DurPtr(tsbd)
	se1 := a.generateTimelineEntries(repID, calcWrapTimes(a, cfg, now1, d), 0)
	pt1 := vPubMS(calcPublishTime(cfg, se1.lsi))
	vAssert("C05.publishTime-not-in-future", pt1 <= now1)
	if se1.startNr < 0 {
		vAssert("C05.publishTime-is-AST-when-empty", pt1 == 1000*startS)
	} else {
		last1 := se1.lastNr()
		vAssert("C05.lsi-is-last", se1.lsi.nr == last1)
		endTicks := vSegEndTicks(a, rep, last1)
		aMS := 1000*startS + (1000*endTicks+ts-1)/ts
		vAssert("C05.publishTime-is-last-change", pt1 == aMS)
	}
	vReach("C05.end")
}

func vH_C05_testpic2s_V300() { vC05(vAsset_testpic_2s(), "V300", 5, 0) }
func vH_C05_wave2997() {
	vC05(vAsset_WAVE_vectors_cfhd_sets_14_985_29_97_59_94_t1_2022_10_17(), "1", 5, 0)
}
func vH_C05_alt_V300()            { vC05(vAsset_testpic_alt_seg_dur_stl(), "V300", 13, 0) }
func vH_C05_syn_irregular3()      { vC05(vAsset_syn_irregular3(), "V1", 5, 0) }
func vH_C05_syn_subsecond()       { vC05(vAsset_syn_subsecond(), "V1", 1, 0) }
func vH_C05_testpic8s()           { vC05(vAsset_testpic_8s(), "V300", 17, 0) }
func vH_C05_step_testpic2s_V300() { vC05(vAsset_testpic_2s(), "V300", 5, 1) }
func vH_C05_step_wave2997() {
	vC05(vAsset_WAVE_vectors_cfhd_sets_14_985_29_97_59_94_t1_2022_10_17(), "1", 5, 1)
}
func vH_C05_step_syn_subsecond() { vC05(vAsset_syn_subsecond(), "V1", 1, 1) }

// step = 0: arbitrary pair now1 < now2.  step = 1: now2 = now1 + 1 ms (live-edge stepping).
func vC05(a *asset, repID string, maxTsbd, step int) {
	rep := a.Reps[repID]
	ts := rep.MediaTimescale
	startS := vInt("startS", 0, 1<<32-1)
	tsbd := vInt("tsbd", 0, maxTsbd)
	// instants are given relative to availabilityStartTime (the handler answers 425 before it)
	rel1 := vInt("rel1", 0, 1<<41)
	rel2 := rel1 + 1
	if step == 0 {
		rel2 = vInt("rel2", 0, 1<<41)
		vAssume(rel1 < rel2)
	}
	now1, now2 := 1000*startS+rel1, 1000*startS+rel2
	cfg := vCfg(startS, 0, tsbd)
	cfg.SegTimelineFlag = true
	d := *m.Seconds2DurPtr(tsbd)
	se1 := a.generateTimelineEntries(repID, calcWrapTimes(a, cfg, now1, d), 0)
	se2 := a.generateTimelineEntries(repID, calcWrapTimes(a, cfg, now2, d), 0)
	pt1 := vPubMS(calcPublishTime(cfg, se1.lsi))
	pt2 := vPubMS(calcPublishTime(cfg, se2.lsi))
	last1, last2 := se1.lastNr(), se2.lastNr()
	if se1.startNr < 0 {
		last1 = -1
	}
	if se2.startNr < 0 {
		last2 = -1
	}

	vAssert("C05.first-never-moves-back", se1.startNr <= se2.startNr)
	vAssert("C05.last-never-moves-back", last1 <= last2)
	vAssert("C05.publishTime-not-in-future", pt1 <= now1)
	vAssert("C05.publishTime-monotone", pt1 <= pt2)
	vAssert("C05.lsi-is-last", se1.startNr < 0 || se1.lsi.nr == last1)

	// publishTime is the instant the newest listed segment became available (or AST when nothing is listed)
	if se1.startNr < 0 {
		vAssert("C05.publishTime-is-AST-when-empty", pt1 == 1000*startS)
	} else {
		endTicks := vSegEndTicks(a, rep, last1)
		// first whole millisecond at or after AST + end: ceil(1000*end/ts)
		aMS := 1000*startS + (1000*endTicks+ts-1)/ts
		vAssert("C05.publishTime-is-last-change", pt1 == aMS)
	}
	// publishTime identifies the content
	if pt1 == pt2 {
		vAssert("C05.same-publishTime-same-last", last1 == last2)
		vAssert("C05.same-publishTime-same-first", se1.startNr == se2.startNr)
	}
	if last1 != last2 {
		vAssert("C05.different-last-different-publishTime", pt1 != pt2)
	}
	if step == 1 {
		// the live edge advances by exactly one segment at the millisecond that segment becomes available
		vAssert("C05.step-at-most-one", last2-last1 <= 1)
		endNext := vSegEndTicks(a, rep, last1+1)
		if 1000*endNext <= rel2*ts {
			vAssert("C05.step-advances-when-available", last2 == last1+1)
		} else {
			vAssert("C05.step-holds-otherwise", last2 == last1)
		}
	}
	vReach("C05.end")
}

// Plain $Number$ templates, one period: the MPD content (publishTime, startNumber, duration) does not depend on now.
func vH_C05_number_testpic2s() {
	a := vAsset_testpic_2s()
	startS := vInt("startS", 0, 1<<32-1)
	startNr := vInt("startNr", 0, 1<<20)
	cfg := vCfg(startS, startNr, 60)
	var lsi lastSegInfo
	lsi.nr = vInt("lsiNr", -1, 1<<30)
	lsi.timescale = 90000
	lsi.startTime = vUint64("lsiStart", 0, 1<<40)
	lsi.dur = 180000
	vAssert("C05.number-publishTime-is-AST", vPubMS(calcPublishTime(cfg, lsi)) == 1000*startS)
	as := &m.AdaptationSetType{}
	as.ContentType = "video"
	as.SegmentTemplate = &m.SegmentTemplateType{}
	as.Representations = []*m.RepresentationType{{Id: "V300"}}
	err := adjustAdaptationSetForSegmentNumber(cfg, a, as)
	vAssert("C05.number-adjust-ok", err == nil)
	vAssert("C05.number-startNumber", int(*as.SegmentTemplate.StartNumber) == startNr)
	vAssert("C05.number-duration", int(*as.SegmentTemplate.Duration) == 180000)
	vAssert("C05.number-timescale", int(*as.SegmentTemplate.Timescale) == 90000)
	vAssert("C05.number-no-timeline", as.SegmentTemplate.SegmentTimeline == nil)
	vReach("C05.number.end")
}
