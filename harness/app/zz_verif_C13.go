//go:build verif

package app

import (
	"github.com/Dash-Industry-Forum/livesim2/pkg/scte35"
	"github.com/Eyevinn/mp4ff/mp4"
)

// C13 — SCTE-35 events follow the per-minute schedule, each announced exactly once.
//
// Per-segment biconditional against the documented schedule: for an arbitrary segment
// (segStart, segEnd] of at most 10 s at any position, CreateEmsgAhead returns an emsg iff some
// splice instant 60*m+off (off per N) has its announce instant (splice-7s) inside (segStart, segEnd],
// and then the emsg describes exactly that splice. Since the (start,end] intervals of consecutive
// segments partition the timeline, the biconditional for every segment implies "each event is
// carried by exactly one segment" for every tiling.

func init() {
	vHarnesses["vH_C13_ts1"] = vH_C13_ts1
	vHarnesses["vH_C13_ts1000"] = vH_C13_ts1000
	vHarnesses["vH_C13_ts12800"] = vH_C13_ts12800
	vHarnesses["vH_C13_ts30000"] = vH_C13_ts30000
	vHarnesses["vH_C13_ts90000"] = vH_C13_ts90000
	vHarnesses["vH_C13_badN"] = vH_C13_badN
}

func vH_C13_ts1()     { vC13(1) }
func vH_C13_ts1000()  { vC13(1000) }
func vH_C13_ts12800() { vC13(12800) }
func vH_C13_ts30000() { vC13(30000) }
func vH_C13_ts90000() { vC13(90000) }

// (the stub of the splice_info_section builder lives in zz_verif_liveseg.go)

func vStubParamsOf(e *mp4.EmsgBox) (scte35.SpliceInsertParams, bool) { return vLastParams, true }

var vC13Offsets = [4][]uint64{nil, {10}, {10, 40}, {10, 36, 46}}

func vC13(ts uint64) {
	perMinute := vInt("perMinute", 1, 3)
	// any position up to 2^48 ticks; duration in (0, 10 s]
	segStart := vUint64("segStart", 0, 1<<44)
	dur := vUint64("dur", 1, 10*ts)
	segEnd := segStart + dur

	emsg, err := scte35.CreateEmsgAhead(segStart, segEnd, ts, perMinute)
	vAssert("C13.noerr", err == nil)

	// Oracle: the announce instants that can fall in (segStart, segEnd] belong to the minute of segStart
	// or to the following one (dur <= 10 s < 60 s).
	minute := segStart / (60 * ts)
	offs := vC13Offsets[perMinute]
	found := false
	var splice uint64
	for k := uint64(0); k < 2; k++ {
		for _, off := range offs {
			sp := (60*(minute+k) + off) * ts
			ann := sp - 7*ts
			if !found {
				if segStart < ann {
					if ann <= segEnd {
						found = true
						splice = sp
					}
				}
			}
		}
	}
	if found {
		vAssert("C13.event-present", emsg != nil)
		if emsg != nil {
			vAssert("C13.presentation-time", emsg.PresentationTime == splice)
			vAssert("C13.id", uint64(emsg.ID) == (splice/ts)%(1<<32))
			vAssert("C13.timescale", uint64(emsg.TimeScale) == ts)
			adDur := 10 * ts
			if perMinute == 1 {
				adDur = 20 * ts
			}
			vAssert("C13.event-duration", uint64(emsg.EventDuration) == adDur)
			vAssert("C13.scheme", emsg.SchemeIDURI == scte35.SchemeIDURI)
			// the embedded splice_info_section is consistent with the emsg: PTS = presentation time in 90 kHz
			// modulo 2^33, break duration = event duration in 90 kHz, same event id, out-of-network + auto return
			sp, ok := vParamsOf(emsg)
			vAssert("C13.section-parses", ok)
			if ok {
				vAssert("C13.section.pts", sp.PtsTime == (emsg.PresentationTime*90000/uint64(emsg.TimeScale))%(1<<33))
				vAssert("C13.section.duration", sp.Duration == uint64(emsg.EventDuration)*90000/uint64(emsg.TimeScale))
				vAssert("C13.section.event-id", sp.SpliceEventID == emsg.ID)
				vAssert("C13.section.out-and-return", sp.OutOfNetworkIndicator && sp.AutoReturn)
			}
		}
	} else {
		vAssert("C13.no-spurious-event", emsg == nil)
	}
	vReach("C13.end")
}

// Values of N outside {1,2,3} are rejected.
func vH_C13_badN() {
	n := vInt("perMinute", -1000, 1000)
	vAssume(n < 1 || n > 3)
	segStart := vUint64("segStart", 0, 1<<48)
	dur := vUint64("dur", 1, 10*90000)
	emsg, err := scte35.CreateEmsgAhead(segStart, segStart+dur, 90000, n)
	vAssert("C13.badN-rejected", err != nil)
	vAssert("C13.badN-no-emsg", emsg == nil)
	vAssert("C13.badN-validator", scte35.IsValidSCTE35Interval(n) != nil)
	vReach("C13.badN.end")
}
