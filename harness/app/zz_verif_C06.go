//go:build verif

package app

import (
	m "github.com/Eyevinn/dash-mpd/mpd"
)

// C06 — splitting into periods preserves the timeline and the segment identities.

func init() {
	vHarnesses["vH_C06_time_pph1800"] = vH_C06_time_pph1800
	vHarnesses["vH_C06_time_pph450"] = vH_C06_time_pph450
	vHarnesses["vH_C06_time_pph60"] = vH_C06_time_pph60
	vHarnesses["vH_C06_nr_pph1800"] = vH_C06_nr_pph1800
	vHarnesses["vH_C06_nr_pph450"] = vH_C06_nr_pph450
	vHarnesses["vH_C06_number_pph1800"] = vH_C06_number_pph1800
	vHarnesses["vH_C06_number_pph7"] = vH_C06_number_pph7
	vHarnesses["vH_C06_reject_pph3600"] = vH_C06_reject_pph3600
	vHarnesses["vH_C06_reject_pph11"] = vH_C06_reject_pph11
	vHarnesses["vH_C06_time_alt_pph300"] = vH_C06_time_alt_pph300
	vHarnesses["vH_C06_cont_flag"] = vH_C06_cont_flag
	vHarnesses["vH_C06_time_pph1800_start"] = vH_C06_time_pph1800_start
	vHarnesses["vH_C06_audio_time_pph1800"] = vH_C06_audio_time_pph1800
	vHarnesses["vH_C06_audio_nr_pph1800"] = vH_C06_audio_nr_pph1800
	vHarnesses["vH_C06_audio_time_pph450"] = vH_C06_audio_time_pph450
	vHarnesses["vH_C06_number_pph1800_snr"] = vH_C06_number_pph1800_snr
	vHarnesses["vH_C06_nr_pph1800_snr"] = vH_C06_nr_pph1800_snr
}

// audio adaptation set: segment boundaries do not coincide with period boundaries
func vH_C06_audio_time_pph1800() { vC06a(vAsset_testpic_2s(), "V300", 1, 1800, 5, false, false, "A48") }
func vH_C06_audio_nr_pph1800()   { vC06a(vAsset_testpic_2s(), "V300", 2, 1800, 5, false, false, "A48") }
func vH_C06_audio_time_pph450()  { vC06a(vAsset_testpic_2s(), "V300", 1, 450, 9, false, false, "A48") }

func vH_C06_number_pph1800_snr() {
	vC06n(vAsset_testpic_2s(), "V300", 0, 1800, 3, false, false, "", true)
}
func vH_C06_nr_pph1800_snr() { vC06n(vAsset_testpic_2s(), "V300", 2, 1800, 3, false, false, "", true) }

func vH_C06_time_pph1800_start() { vC06s(vAsset_testpic_2s(), "V300", 1, 1800, 3, false, true) }

func vH_C06_time_pph1800()    { vC06(vAsset_testpic_2s(), "V300", 1, 1800, 5, false) }
func vH_C06_time_pph450()     { vC06(vAsset_testpic_2s(), "V300", 1, 450, 9, false) }
func vH_C06_time_pph60()      { vC06(vAsset_testpic_2s(), "V300", 1, 60, 5, false) }
func vH_C06_nr_pph1800()      { vC06(vAsset_testpic_2s(), "V300", 2, 1800, 5, false) }
func vH_C06_nr_pph450()       { vC06(vAsset_testpic_2s(), "V300", 2, 450, 9, false) }
func vH_C06_number_pph1800()  { vC06(vAsset_testpic_2s(), "V300", 0, 1800, 5, false) }
func vH_C06_number_pph7()     { vC06(vAsset_testpic_2s(), "V300", 0, 7, 5, false) }
func vH_C06_reject_pph3600()  { vC06(vAsset_testpic_2s(), "V300", 1, 3600, 3, false) }
func vH_C06_reject_pph11()    { vC06(vAsset_testpic_2s(), "V300", 1, 11, 3, false) }
func vH_C06_time_alt_pph300() { vC06(vAsset_testpic_alt_seg_dur_stl(), "V300", 1, 300, 13, false) }
func vH_C06_cont_flag()       { vC06(vAsset_testpic_2s(), "V300", 1, 1800, 3, true) }

// vStubPeriodClone replaces Period.Clone (reflection-based deep copy) under symbolic execution:
// it copies what splitPeriod reads and writes.
func vStubPeriodClone(p *m.Period) *m.Period {
	np := &m.Period{}
	for _, as := range p.AdaptationSets {
		nas := &m.AdaptationSetType{}
		nas.ContentType = as.ContentType
		st := *as.SegmentTemplate
		if as.SegmentTemplate.SegmentTimeline != nil {
			tl := *as.SegmentTemplate.SegmentTimeline
			st.SegmentTimeline = &tl
		}
		nas.SegmentTemplate = &st
		nas.SupplementalProperties = append([]*m.DescriptorType(nil), as.SupplementalProperties...)
		np.AdaptationSets = append(np.AdaptationSets, nas)
	}
	return np
}

// mode: 0 $Number$, 1 SegmentTimeline $Time$, 2 SegmentTimeline $Number$
func vC06(a *asset, repID string, mode, pph, maxTsbd int, cont bool) {
	vC06s(a, repID, mode, pph, maxTsbd, cont, false)
}

// withStart: availabilityStartTime is an arbitrary second (start_X); all period quantities are relative to it.
func vC06s(a *asset, repID string, mode, pph, maxTsbd int, cont, withStart bool) {
	vC06a(a, repID, mode, pph, maxTsbd, cont, withStart, "")
}

// audioID != "": the adaptation set under test is the audio one (timeline derived from the video reference).
func vC06a(a *asset, repID string, mode, pph, maxTsbd int, cont, withStart bool, audioID string) {
	vC06n(a, repID, mode, pph, maxTsbd, cont, withStart, audioID, false)
}

// withStartNr: the configured start number (snr_N) is arbitrary.
func vC06n(a *asset, repID string, mode, pph, maxTsbd int, cont, withStart bool, audioID string, withStartNr bool) {
	rep := a.Reps[repID]
	ts := rep.MediaTimescale
	if audioID != "" {
		ts = a.Reps[audioID].MediaTimescale
	}
	tsbd := vInt("tsbd", 0, maxTsbd)
	rel := vInt("rel1", 0, 1<<41)
	startS := 0
	if withStart {
		startS = vInt("startS", 0, 1<<32-1)
	}
	now := 1000*startS + rel
	startNr := 0
	if withStartNr {
		startNr = vInt("startNr", 0, 1<<20)
	}
	cfg := vCfg(startS, startNr, tsbd)
	cfg.PeriodsPerHour = Ptr(pph)
	cfg.ContMultiPeriodFlag = cont
	switch mode {
	case 1:
		cfg.SegTimelineFlag = true
	case 2:
		cfg.SegTimelineNrFlag = true
	}
	wt := calcWrapTimes(a, cfg, now, *m.Seconds2DurPtr(tsbd))
	se := a.generateTimelineEntries(repID, wt, 0)
	if se.startNr < 0 && mode != 0 {
		vReach("C06.end-empty")
		return
	}
	if audioID != "" {
		se = a.generateTimelineEntriesFromRef(se, audioID)
	}
	as := &m.AdaptationSetType{}
	as.ContentType = "video"
	if audioID != "" {
		as.ContentType = "audio"
	}
	as.SegmentTemplate = &m.SegmentTemplateType{}
	as.Representations = []*m.RepresentationType{{Id: repID}}
	var err error
	switch mode {
	case 0:
		err = adjustAdaptationSetForSegmentNumber(cfg, a, as)
	case 1:
		err = adjustAdaptationSetForTimelineTime(se, as)
	case 2:
		err = adjustAdaptationSetForTimelineNr(se, as, cfg.getStartNr())
	}
	vAssert("C06.adjust-ok", err == nil)
	single := vExpand(se) // the single-period presentation
	mpd := &m.MPD{}
	period := &m.Period{}
	period.AdaptationSets = []*m.AdaptationSetType{as}
	mpd.Periods = []*m.Period{period}

	periodDur := 3600 / pph
	err = splitPeriod(mpd, a, cfg, wt)
	if periodDur*1000%a.SegmentDurMS != 0 {
		vAssert("C06.non-multiple-period-rejected", err != nil)
		vReach("C06.end-rejected")
		return
	}
	vAssert("C06.split-ok", err == nil)
	if err != nil {
		return
	}
	nP := len(mpd.Periods)
	vAssert("C06.at-least-one-period", nP >= 1)
	firstK := int(*mpd.Periods[0].Start) / 1_000_000_000 / periodDur
	// the periods tile wall-clock time: period k starts at k*periodDur; the last one contains now,
	// the first one contains the start of the time-shift window
	winRel := wt.startTimeMS - 1000*startS
	vAssert("C06.last-period-contains-now", (firstK+nP-1)*periodDur*1000 <= rel && rel < (firstK+nP)*periodDur*1000)
	vAssert("C06.first-period-contains-window-start", firstK*periodDur*1000 <= winRel && winRel < (firstK+1)*periodDur*1000)
	idx := 0 // cursor into the single-period list
	for idx < len(single) && int(single[idx].t) < firstK*periodDur*ts {
		idx++ // segments starting before the first period are not carried over
	}
	for i := 0; i < nP; i++ {
		p := mpd.Periods[i]
		k := firstK + i
		vAssert("C06.period-start", int(*p.Start) == k*periodDur*1_000_000_000)
		pas := p.AdaptationSets[0]
		st := pas.SegmentTemplate
		vAssert("C06.pto", st.PresentationTimeOffset != nil && int(*st.PresentationTimeOffset) == k*periodDur*ts)
		hasCont := false
		for _, sp := range pas.SupplementalProperties {
			if sp.SchemeIdUri == "urn:mpeg:dash:period-continuity:2015" {
				hasCont = true
			}
		}
		vAssert("C06.continuity-signalled-iff-requested", hasCont == cont)
		if mode == 0 {
			// $Number$: startNumber_k * duration = PTO_k
			// the first segment of period k has the number it has in the single-period presentation (startNumber + index)
			vAssert("C06.number.startNumber-matches-pto", (int(*st.StartNumber)-startNr)*int(*st.Duration) == k*periodDur*ts)
			continue
		}
		pse := segEntries{entries: st.SegmentTimeline.S}
		if mode == 2 && st.StartNumber != nil {
			pse.startNr = int(*st.StartNumber) - startNr
		}
		list := vExpand(pse)
		for j := range list {
			e := list[j]
			vAssert("C06.entry-inside-its-period", int(e.t) >= k*periodDur*ts && int(e.t) < (k+1)*periodDur*ts)
			vAssert("C06.every-entry-from-single-period", idx < len(single))
			if idx < len(single) {
				vAssert("C06.same-time", e.t == single[idx].t)
				vAssert("C06.same-duration", e.d == single[idx].d)
				if mode == 2 {
					vAssert("C06.same-number", e.idx == single[idx].idx)
				}
			}
			idx++
		}
	}
	if mode != 0 {
		vAssert("C06.every-segment-in-exactly-one-period", idx == len(single))
	}
	vReach("C06.end")
}
