//go:build verif

package app

import (
	"fmt"
	"net"
	"time"
)

// C20 (white list): with whiteListBlocks "10.0.0.0/31,2001:db8:aa::/48" the addresses 10.0.0.0, 10.0.0.1 and
// 2001:db8:aa::1 are never limited (every request passes and reports max -1) while their requests are still counted;
// 10.0.0.2 and 2001:db8:bb::1 are limited exactly as without a white list. All histories of 3 requests from these five
// addresses, any quota and interval.
// Under symbolic execution net.ParseCIDR / net.ParseIP / IPNet.Contains (netip internals) are replaced by stubs that
// implement exactly this block for these four addresses; natively the real net package runs.

func init() {
	vHarnesses["vH_C20_whitelist"] = vH_C20_whitelist
}

// addresses 0, 1 (IPv4) and 3 (IPv6) are inside the white-listed blocks, 2 (IPv4) and 4 (IPv6) are not
var vC20IPs = [5]string{"10.0.0.0", "10.0.0.1", "10.0.0.2", "2001:db8:aa::1", "2001:db8:bb::1"}

func vC20Listed(id int) bool { return id == 0 || id == 1 || id == 3 }

func vStubParseCIDR(s string) (net.IP, *net.IPNet, error) { return nil, &net.IPNet{}, nil }

func vStubParseIP(s string) net.IP {
	for i, a := range vC20IPs {
		if s == a {
			if i < 3 {
				return net.IP{10, 0, 0, byte(i)}
			}
			sub := byte(0xaa)
			if i == 4 {
				sub = 0xbb
			}
			return net.IP{0x20, 0x01, 0x0d, 0xb8, 0, sub, 0, 0, 0, 0, 0, 0, 0, 0, 0, 1}
		}
	}
	return nil
}

func vStubIPNetContains(n *net.IPNet, ip net.IP) bool {
	if len(ip) == 4 {
		return ip[0] == 10 && ip[3] < 2
	}
	return len(ip) == 16 && ip[0] == 0x20 && ip[5] == 0xaa
}

func vH_C20_whitelist() {
	maxReq := vInt("max", 0, 4)
	itvlMS := vInt("itvlMS", 1, 3600000)
	t0 := vInt("t0", 0, 1<<40)
	il, err := NewIPRequestLimiter(maxReq, time.Duration(itvlMS)*time.Millisecond, time.UnixMilli(int64(t0)), "10.0.0.0/31,2001:db8:aa::/48", "")
	vAssert("C20.whitelist.new-ok", err == nil)
	if err != nil {
		return
	}
	resetT := t0
	cnt := map[string]int{}
	t := t0
	for i := 0; i < 3; i++ {
		t += vInt(fmt.Sprintf("dt%d", i), 0, 1<<32)
		id := vConc(vInt(fmt.Sprintf("ip%d", i), 0, 4))
		ip := vC20IPs[id]
		nr, maxNr, ok := il.Inc(time.UnixMilli(int64(t)), ip)
		if t-resetT > itvlMS {
			cnt = map[string]int{}
			resetT = t
		}
		cnt[ip]++
		vAssert("C20.whitelist.counted", nr == cnt[ip])
		if vC20Listed(id) {
			vAssert("C20.whitelist.listed-always-passes", ok)
			vAssert("C20.whitelist.listed-reports-no-limit", maxNr == -1)
		} else {
			vAssert("C20.whitelist.others-limited-exactly", ok == (cnt[ip] <= maxReq))
			vAssert("C20.whitelist.others-report-max", maxNr == maxReq)
		}
		vAssert("C20.whitelist.lock-released", !vHeld(&il.mux))
	}
	vReach("C20.whitelist.end")
}
