//go:build verif

package app

import (
	"io/fs"
	"log/slog"
	"net/http"
	"net/url"
	"os"
	"strings"

	"github.com/Eyevinn/mp4ff/mp4"
)

// The request entry as a whole: cfgFromRequest (query parsing, URL configuration parser, stream-start gate) and
// livesimHandlerFunc (asset lookup, traffic patterns, writeSegment dispatch, error -> status mapping) run on a
// request whose URL numbers and instant are symbolic (structured strings, vStrf). The response status (and the
// 425 body) is compared with the exact rational oracle of C04 / the schedule oracles of C14.
//
// Under symbolic execution: url.Parse / URL.String / URL.Query are replaced by stubs that keep the structured
// strings (no escapes occur in these URLs), http.Error by a recording stub, genLiveSegment by a stub that runs
// the real createOutSeg (segment lookup + availability decision, file read stubbed) and hands back a one-byte
// payload; natively the real handler runs on the real asset files.

type vHW struct {
	hdr    http.Header
	status int
	body   string
	wrote  int
}

func (w *vHW) Header() http.Header { return w.hdr }
func (w *vHW) Write(b []byte) (int, error) {
	if w.status == 0 {
		w.status = 200
	}
	if w.wrote == 0 && w.status != 200 {
		w.body = string(b)
	}
	w.wrote++
	return len(b), nil
}
func (w *vHW) WriteHeader(s int) {
	if w.status == 0 {
		w.status = s
	}
}
func (w *vHW) Flush() {}

func vStubURLParse(raw string) (*url.URL, error) { return &url.URL{Path: raw}, nil }
func vStubURLString(u *url.URL) string            { return u.Path }
func vStubURLQuery(u *url.URL) url.Values {
	if u.RawQuery == "" {
		return url.Values{}
	}
	k, v, _ := strings.Cut(u.RawQuery, "=")
	return url.Values{k: {v}}
}

// vStubHTTPErrorRec replaces http.Error: status and message are recorded (the real one appends a newline).
func vStubHTTPErrorRec(w http.ResponseWriter, msg string, code int) {
	hw := w.(*vHW)
	if hw.status == 0 {
		hw.status = code
		hw.body = msg
	}
	hw.wrote++
}

func vStubHeaderSetHTTP(h http.Header, key, val string) {}
func vStubHeaderGetHTTP(h http.Header, key string) string { return "" }

func vStubReadFileHTTP(fsys fs.FS, name string) ([]byte, error) { return []byte{0}, nil }

// vStubGenLiveSegHTTP: the lookup / availability half of genLiveSegment (the real createOutSeg); the media
// rewriting half is verified by vLiveSeg (C01.liveseg.*).
func vStubGenLiveSegHTTP(log *slog.Logger, vodFS fs.FS, a *asset, cfg *ResponseConfig, segmentPart string, nowMS int, isLast bool) (segOut, error) {
	return createOutSeg(vodFS, a, cfg, segmentPart, nowMS)
}

func vStubCreateAudioSegNil(vodFS fs.FS, a *asset, recipe audioRecipe) (*mp4.MediaSegment, error) {
	return nil, nil
}

func vHTTPServer(a *asset) *Server {
	am := &assetMgr{vodFS: os.DirFS("testdata/assets"), assets: map[string]*asset{a.AssetPath: a}}
	return &Server{assetMgr: am, Cfg: &ServerConfig{}}
}

// vHTTPGet sends GET <path>?nowMS=<now> through the real livesimHandlerFunc.
func vHTTPGet(s *Server, path string, nowMS int) *vHW {
	w := &vHW{hdr: http.Header{}}
	r := &http.Request{Method: "GET", URL: &url.URL{Path: path, RawQuery: vStrf("nowMS=%d", nowMS)}, Host: "h", Header: http.Header{}}
	s.livesimHandlerFunc(w, r)
	return w
}

// vBodyMS extracts N from a 425 body "too early by N ms" / "Nms too early" (native side; under symbolic
// execution the message is an opaque formatted string whose integer argument is read back).
func vBodyMS(body string) int { return vFmtInt(body) }

func init() {
	vHarnesses["vH_HTTP_seg_nr_testpic2s_V300"] = vH_HTTP_seg_nr_testpic2s_V300
	vHarnesses["vH_HTTP_seg_nr_testpic2s_A48"] = vH_HTTP_seg_nr_testpic2s_A48
	vHarnesses["vH_HTTP_seg_time_testpic2s_V300"] = vH_HTTP_seg_time_testpic2s_V300
	vHarnesses["vH_HTTP_seg_time_testpic2s_A48"] = vH_HTTP_seg_time_testpic2s_A48
	vHarnesses["vH_HTTP_seg_tlnr_testpic2s_V300"] = vH_HTTP_seg_tlnr_testpic2s_V300
	vHarnesses["vH_HTTP_seg_nr_testpic2s_V300_atoInf"] = vH_HTTP_seg_nr_testpic2s_V300_atoInf
	vHarnesses["vH_HTTP_seg_nr_testpic2s_A48_atoInf"] = vH_HTTP_seg_nr_testpic2s_A48_atoInf
	vHarnesses["vH_HTTP_seg_nr_alt_V300"] = vH_HTTP_seg_nr_alt_V300
}

func vH_HTTP_seg_nr_testpic2s_V300() { vHTTPSeg(vAsset_testpic_2s(), "V300", 0, 0) }
func vH_HTTP_seg_nr_testpic2s_A48() { vHTTPSeg(vAsset_testpic_2s(), "A48", 0, 0) }
func vH_HTTP_seg_time_testpic2s_V300() { vHTTPSeg(vAsset_testpic_2s(), "V300", 1, 0) }
func vH_HTTP_seg_time_testpic2s_A48() { vHTTPSeg(vAsset_testpic_2s(), "A48", 1, 0) }
func vH_HTTP_seg_tlnr_testpic2s_V300() { vHTTPSeg(vAsset_testpic_2s(), "V300", 2, 0) }
func vH_HTTP_seg_nr_testpic2s_V300_atoInf() { vHTTPSeg(vAsset_testpic_2s(), "V300", 0, 1) }
func vH_HTTP_seg_nr_testpic2s_A48_atoInf() { vHTTPSeg(vAsset_testpic_2s(), "A48", 0, 1) }
func vH_HTTP_seg_nr_alt_V300() { vHTTPSeg(vAsset_testpic_alt_seg_dur_stl(), "V300", 0, 0) }

// mode: 0 $Number$, 1 SegmentTimeline $Time$, 2 SegmentTimeline $Number$.  atoMode: 0 none, 1 ato_inf.
func vHTTPSeg(a *asset, repID string, mode, atoMode int) {
	vPrepareRegexps(a)
	rep := a.Reps[repID]
	ref := a.refRep
	startNr := vInt("startNr", 0, 1<<20)
	startS := vInt("startS", 0, 1<<32-1)
	tsbd := vInt("tsbd", 0, 172800)
	n := vInt("n", 0, 1<<26)
	now := vInt("now1", 0, 1<<42)
	below := vBool("below") // request a number below startNumber instead (Number addressing only)

	// the segment's interval on the reference (video) timeline, and for audio its own start
	refTs := ref.MediaTimescale
	endTicks := vSegEndTicks(a, ref, n)
	startTicks := vSegStartTicks(a, ref, n)
	segID := startNr + n
	if mode == 1 {
		segID = startTicks
		if rep.ContentType == "audio" {
			segID = vAudioTimeOracle(startTicks, refTs, int(rep.sampleDur()), rep.MediaTimescale)
		}
	}
	if below {
		vAssume(mode != 1 && startNr > 0)
		segID = vInt("belowNr", 0, 1<<20)
		vAssume(segID < startNr)
	}
	opts := ""
	switch mode {
	case 1:
		opts = "segtimeline_1/"
	case 2:
		opts = "segtimelinenr_1/"
	}
	if atoMode == 1 {
		opts += "ato_inf/"
	}
	media := strings.ReplaceAll(strings.ReplaceAll(rep.MediaURI, "$Number$", "%d"), "$Time$", "%d")
	path := vStrf("/livesim2/start_%d/snr_%d/tsbd_%d/"+opts+a.AssetPath+"/"+media, startS, startNr, tsbd, segID)
	vStubRep, vStubSegID = rep, segID

	s := vHTTPServer(a)
	w := vHTTPGet(s, path, now)
	vAssert("C04.http.answered", w.status != 0)

	// --- oracle (exact, ato 0): A = AST + segment end
	lhs := (now - 1000*startS) * refTs
	rhs := 1000 * endTicks
	switch {
	case now < 1000*startS:
		// before the stream starts nothing is available, whatever the offset
		vAssert("C04.http.before-start-425", w.status == 425)
		vAssert("C04.http.before-start-body-ms", vBodyMS(w.body) == 1000*startS-now)
	case below:
		vAssert("C04.http.below-startnr-404", w.status == 404)
	case atoMode == 1:
		vAssert("C04.http.inf-available-from-start", w.status == 200)
	case lhs < rhs:
		vAssert("C04.http.too-early-425", w.status == 425)
		d := vBodyMS(w.body)
		vAssert("C04.http.body-ms-lower", (d+1)*refTs >= rhs-lhs)
		vAssert("C04.http.body-ms-upper", (d-1)*refTs <= rhs-lhs)
	case lhs <= rhs+1000*tsbd*refTs:
		vAssert("C04.http.available-200", w.status == 200)
	default:
		vAssert("C04.http.later-200-or-410", w.status == 200 || w.status == 410)
	}
	vReach("C04.http.end")
}
