//go:build verif

package app

import (
	"io"
	"io/fs"
	"log/slog"
	"net/http"
	"net/url"
	"os"
	"strings"

	m "github.com/Eyevinn/dash-mpd/mpd"
	"github.com/Eyevinn/mp4ff/mp4"
)

// The request entry as a whole: cfgFromRequest (query parsing, URL configuration parser, stream-start gate) and
// livesimHandlerFunc (asset lookup, traffic patterns, writeSegment dispatch, error -> status mapping) run on a
// request whose URL numbers and instant are symbolic (structured strings, vStrf). The response status (and the
// 425 body) is compared with the exact rational oracle of C04 / the schedule oracles of C14.
//
// Under symbolic execution: url.Parse / URL.String / URL.Query are replaced by stubs that keep the structured
// strings (no escapes occur in these URLs), http.Error by a recording stub, genLiveSegment by a stub that runs
// the real createOutSeg (segment lookup + availability decision, file read stubbed) and hands back a one-byte
// payload; natively the real handler runs on the real asset files.

type vHW struct {
	hdr    http.Header
	status int
	body   string
	wrote  int
}

func (w *vHW) Header() http.Header { return w.hdr }
func (w *vHW) Write(b []byte) (int, error) {
	if w.status == 0 {
		w.status = 200
	}
	if w.wrote == 0 && w.status != 200 {
		w.body = string(b)
	}
	w.wrote++
	return len(b), nil
}
func (w *vHW) WriteHeader(s int) {
	if w.status == 0 {
		w.status = s
	}
}
func (w *vHW) Flush() {}

func vStubURLParse(raw string) (*url.URL, error) { return &url.URL{Path: raw}, nil }
func vStubURLString(u *url.URL) string           { return u.Path }
func vStubURLQuery(u *url.URL) url.Values {
	if u.RawQuery == "" {
		return url.Values{}
	}
	k, v, _ := strings.Cut(u.RawQuery, "=")
	return url.Values{k: {v}}
}

// vStubHTTPErrorRec replaces http.Error: status and message are recorded (the real one appends a newline).
func vStubHTTPErrorRec(w http.ResponseWriter, msg string, code int) {
	hw := w.(*vHW)
	if hw.status == 0 {
		hw.status = code
		hw.body = msg
	}
	hw.wrote++
}

func vStubHeaderSetHTTP(h http.Header, key, val string)   {}
func vStubHeaderGetHTTP(h http.Header, key string) string { return "" }

func vStubReadFileHTTP(fsys fs.FS, name string) ([]byte, error) { return []byte{0}, nil }

// vStubGenLiveSegHTTP: the lookup / availability half of genLiveSegment (the real createOutSeg); the media
// rewriting half is verified by vLiveSeg (C01.liveseg.*).
func vStubGenLiveSegHTTP(log *slog.Logger, vodFS fs.FS, a *asset, cfg *ResponseConfig, segmentPart string, nowMS int, isLast bool) (segOut, error) {
	so, err := createOutSeg(vodFS, a, cfg, segmentPart, nowMS)
	if err == nil && vHTTPChunked && !cfg.AvailabilityTimeCompleteFlag && so.seg == nil {
		so.seg = &mp4.MediaSegment{} // chunked delivery works on the decoded segment (chunking itself: vH_C09_*)
	}
	return so, err
}

// set by the chunked C04 harness only: elsewhere a chunked request that gets as far as the segment generator ends
// in the handler's "no segment data" answer under symbolic execution (natively the real chunker runs)
var vHTTPChunked bool

func vStubUnixMSHTTP() int { return 0 }

func vStubChunkSegmentNone(init *mp4.InitSegment, seg *mp4.MediaSegment, segMeta segMeta, chunkDur int) ([]chunk, error) {
	return nil, nil
}

// vStubCreateAudioSegNil stands in for createAudioSeg (file reads + mp4 decoding). It keeps the first thing the real
// function does with the recipe: allocate room for (endTime-startTime)/frameDuration output frames - a recipe whose
// frame count is absurd (wrapped arithmetic) makes the real allocation panic ("makeslice: cap out of range").
func vStubCreateAudioSegNil(vodFS fs.FS, a *asset, recipe audioRecipe) (*mp4.MediaSegment, error) {
	sampleDur := uint64(*recipe.rep.ConstantSampleDuration)
	if recipe.endTime < recipe.startTime || (recipe.endTime-recipe.startTime)/sampleDur >= 1<<40 {
		vModelPanic("makeslice: cap out of range (audio frame count of the recipe)")
	}
	return nil, nil
}

// vStubRunRecover: under symbolic execution panics are reported by the engine itself.
func vStubRunRecover(f func()) bool {
	f()
	return false
}

// XML serialisation of the MPD is outside: the stub reports a written document
func vStubMPDWrite(mpd *m.MPD, w io.Writer, indent string, withHeader bool) (int, error) {
	return 1, nil
}

func vHTTPServer(a *asset) *Server {
	am := &assetMgr{vodFS: os.DirFS("testdata/assets"), assets: map[string]*asset{a.AssetPath: a}}
	return &Server{assetMgr: am, Cfg: &ServerConfig{}}
}

// vHTTPGet sends GET <path>?nowMS=<now> through the real livesimHandlerFunc.
func vHTTPGet(s *Server, path string, nowMS int) *vHW {
	w := &vHW{hdr: http.Header{}}
	r := &http.Request{Method: "GET", URL: &url.URL{Path: path, RawQuery: vStrf("nowMS=%d", nowMS)}, Host: "h", Header: http.Header{}}
	s.livesimHandlerFunc(w, r)
	return w
}

// vBodyMS extracts N from a 425 body "too early by N ms" / "Nms too early" (native side; under symbolic
// execution the message is an opaque formatted string whose integer argument is read back).
func vBodyMS(body string) int { return vFmtInt(body) }

func init() {
	vHarnesses["vH_HTTP_seg_nr_testpic2s_V300"] = vH_HTTP_seg_nr_testpic2s_V300
	vHarnesses["vH_HTTP_seg_nr_testpic2s_A48"] = vH_HTTP_seg_nr_testpic2s_A48
	vHarnesses["vH_HTTP_seg_time_testpic2s_V300"] = vH_HTTP_seg_time_testpic2s_V300
	vHarnesses["vH_HTTP_seg_time_testpic2s_A48"] = vH_HTTP_seg_time_testpic2s_A48
	vHarnesses["vH_HTTP_seg_tlnr_testpic2s_V300"] = vH_HTTP_seg_tlnr_testpic2s_V300
	vHarnesses["vH_HTTP_seg_nr_testpic2s_V300_atoInf"] = vH_HTTP_seg_nr_testpic2s_V300_atoInf
	vHarnesses["vH_HTTP_seg_nr_testpic2s_A48_atoInf"] = vH_HTTP_seg_nr_testpic2s_A48_atoInf
	vHarnesses["vH_HTTP_seg_nr_alt_V300"] = vH_HTTP_seg_nr_alt_V300
	vHarnesses["vH_HTTP_seg_nr_testpic2s_V300_chunked"] = vH_HTTP_seg_nr_testpic2s_V300_chunked
	vHarnesses["vH_HTTP_seg_nr_testpic2s_A48_chunked"] = vH_HTTP_seg_nr_testpic2s_A48_chunked
}

func vH_HTTP_seg_nr_testpic2s_V300()        { vHTTPSeg(vAsset_testpic_2s(), "V300", 0, 0) }
func vH_HTTP_seg_nr_testpic2s_A48()         { vHTTPSeg(vAsset_testpic_2s(), "A48", 0, 0) }
func vH_HTTP_seg_time_testpic2s_V300()      { vHTTPSeg(vAsset_testpic_2s(), "V300", 1, 0) }
func vH_HTTP_seg_time_testpic2s_A48()       { vHTTPSeg(vAsset_testpic_2s(), "A48", 1, 0) }
func vH_HTTP_seg_tlnr_testpic2s_V300()      { vHTTPSeg(vAsset_testpic_2s(), "V300", 2, 0) }
func vH_HTTP_seg_nr_testpic2s_V300_atoInf() { vHTTPSeg(vAsset_testpic_2s(), "V300", 0, 1) }
func vH_HTTP_seg_nr_testpic2s_A48_atoInf()  { vHTTPSeg(vAsset_testpic_2s(), "A48", 0, 1) }
func vH_HTTP_seg_nr_alt_V300()              { vHTTPSeg(vAsset_testpic_alt_seg_dur_stl(), "V300", 0, 0) }

func vH_HTTP_seg_nr_testpic2s_V300_chunked() { vHTTPSeg(vAsset_testpic_2s(), "V300", 0, 2) }
func vH_HTTP_seg_nr_testpic2s_A48_chunked()  { vHTTPSeg(vAsset_testpic_2s(), "A48", 0, 2) }

// mode: 0 $Number$, 1 SegmentTimeline $Time$, 2 SegmentTimeline $Number$.
// atoMode: 0 none, 1 ato_inf, 2 low-latency chunked delivery (ato_1/chunkdur_0.5).
func vHTTPSeg(a *asset, repID string, mode, atoMode int) {
	vPrepareRegexps(a)
	rep := a.Reps[repID]
	ref := a.refRep
	vHTTPChunked = atoMode == 2
	if atoMode == 2 {
		vLoadInit(rep) // the chunker needs the init segment (natively the real one)
	}
	startNr := vInt("startNr", 0, 1<<20)
	startS := vInt("startS", 0, 1<<32-1)
	tsbd := vInt("tsbd", 0, 172800)
	n := vInt("n", 0, 1<<26)
	now := vInt("now1", 0, 1<<42)
	below := vBool("below") // request a number below startNumber instead (Number addressing only)

	// the segment's interval on the reference (video) timeline, and for audio its own start
	refTs := ref.MediaTimescale
	endTicks := vSegEndTicks(a, ref, n)
	startTicks := vSegStartTicks(a, ref, n)
	segID := startNr + n
	if mode == 1 {
		segID = startTicks
		if rep.ContentType == "audio" {
			segID = vAudioTimeOracle(startTicks, refTs, int(rep.sampleDur()), rep.MediaTimescale)
		}
	}
	if below {
		vAssume(mode != 1 && startNr > 0)
		segID = vInt("belowNr", 0, 1<<20)
		vAssume(segID < startNr)
	}
	opts := ""
	switch mode {
	case 1:
		opts = "segtimeline_1/"
	case 2:
		opts = "segtimelinenr_1/"
	}
	atoMS := 0
	switch atoMode {
	case 1:
		opts += "ato_inf/"
	case 2:
		opts += "ato_1/chunkdur_0.5/"
		atoMS = 1000
	}
	media := strings.ReplaceAll(strings.ReplaceAll(rep.MediaURI, "$Number$", "%d"), "$Time$", "%d")
	path := vStrf("/livesim2/start_%d/snr_%d/tsbd_%d/"+opts+a.AssetPath+"/"+media, startS, startNr, tsbd, segID)
	vStubRep, vStubSegID = rep, segID

	s := vHTTPServer(a)
	w := vHTTPGet(s, path, now)
	vAssert("C04.http.answered", w.status != 0 || atoMode == 2)

	// --- oracle (exact, ato 0): A = AST + segment end
	lhs := (now - 1000*startS + atoMS) * refTs
	rhs := 1000 * endTicks
	switch {
	case now < 1000*startS:
		// before the stream starts nothing is available, whatever the offset
		vAssert("C04.http.before-start-425", w.status == 425)
		vAssert("C04.http.before-start-body-ms", vBodyMS(w.body) == 1000*startS-now)
	case below:
		vAssert("C04.http.below-startnr-404", w.status == 404)
	case atoMode == 1:
		vAssert("C04.http.inf-available-from-start", w.status == 200)
	case atoMode == 2 && lhs+refTs > rhs && lhs < rhs+refTs:
		// within 1 ms of the availability instant with a fractional-second float offset: either side is acceptable
		vAssert("C04.http.chunked-boundary", w.status == 425 || w.status == 200 || w.status == 0)
	case lhs < rhs:
		vAssert("C04.http.too-early-425", w.status == 425)
		d := vBodyMS(w.body)
		vAssert("C04.http.body-ms-lower", (d+1)*refTs >= rhs-lhs)
		vAssert("C04.http.body-ms-upper", (d-1)*refTs <= rhs-lhs)
	case atoMode == 2:
		// chunked mode: the availability decision is the same, the body is produced by the chunk writer (status 200
		// once something is written; under symbolic execution the chunker is stubbed and nothing is written)
		vAssert("C04.http.chunked-available-or-gone", w.status == 200 || w.status == 0 || w.status == 410)
		if lhs <= rhs+1000*tsbd*refTs {
			vAssert("C04.http.chunked-not-gone-within-tsbd", w.status != 410)
		}
	case lhs <= rhs+1000*tsbd*refTs:
		vAssert("C04.http.available-200", w.status == 200)
	default:
		vAssert("C04.http.later-200-or-410", w.status == 200 || w.status == 410)
	}
	vReach("C04.http.end")
}

// ---- C08: URL-parameter robustness through the real request entry ----
// One or two URL parameters, each any key of the configuration parser with a value from a class list (an arbitrary
// 64-bit number, or literal boundary/malformed texts), then a media-segment / init-segment / BaseURL-indexed request.
// Obligations: no runtime panic anywhere on the path (panics are reported), a deliberate status is written, and a
// malformed value of a numeric parameter gives 400.

type vURLKey struct {
	key  string
	kind int // 0 integer, 1 float, 2 flag, 3 literal list
	lits []string
}

var vURLKeys = []vURLKey{
	{"start", 0, nil}, {"ast", 0, nil}, {"stop", 0, nil}, {"startrel", 0, nil}, {"stoprel", 0, nil}, {"dur", 0, nil},
	{"timeoffset", 1, nil}, {"init", 0, nil}, {"tsbd", 0, nil}, {"mup", 0, nil}, {"modulo", 0, nil},
	{"tfdt", 2, nil}, {"cont", 2, nil}, {"periods", 0, nil}, {"xlink", 0, nil}, {"etp", 0, nil}, {"etpDuration", 0, nil},
	{"insertad", 2, nil}, {"continuous", 2, nil}, {"segtimeline", 2, nil}, {"segtimelinenr", 2, nil}, {"peroff", 0, nil},
	{"scte35", 0, nil}, {"utc", 3, []string{"direct-ntp", "keep", "keep-ntp", "bad", "", "head"}}, {"snr", 0, nil},
	{"ato", 1, nil}, {"ltgt", 0, nil}, {"spd", 0, nil}, {"sidx", 2, nil}, {"segtimelineloss", 2, nil}, {"chunkdur", 1, nil},
	{"timesubsstpp", 3, []string{"en", "en,sv", ""}}, {"timesubswvtt", 3, []string{"en", "en,sv", ""}},
	{"timesubsdur", 0, nil}, {"timesubsreg", 0, nil},
	{"statuscode", 3, []string{"[{cycle:30,rsq:0,code:404}]", "[{cycle:30}]", "[]", "", "[{x:1}]", "[{cycle:30,rsq:0,code:404,rep:V300}]", "[{cycle}]", "abc", "%20%20%20%20", "[+{+}", "[%20%20]", "[{cycle:30,+rsq:0,+code:404}]"}},
	{"traffic", 3, []string{"u10d10", "", "5", "u0", "u10,d5u5", "x", "u1+d1", "%75%31"}},
	{"drm", 3, []string{"xyz", ""}}, {"eccp", 3, []string{"cbcs", "cenc", "xyz", ""}},
	{"patch", 0, nil},
	{"annexI", 3, []string{"a=1", "a", "", "a=1,b=2", "a=1=2"}},
}

var vIntLits = []string{"abc", "", "1.5", "-"}
var vFloatLits = []string{"1.5", "abc", "", "-1.5", "0.001", "inf"} // "inf" only for ato

// vURLParam returns "key_value/" for the tag-th parameter and whether the value is a malformed number.
// keys that influence an MPD (indices into vURLKeys): start ast stop startrel stoprel dur mup periods etp etpDuration
// continuous peroff scte35 utc snr ato ltgt spd chunkdur timesubsstpp timesubsdur patch annexI
var vMPDKeys = []int{0, 1, 2, 3, 4, 5, 9, 13, 15, 16, 18, 21, 22, 23, 24, 25, 26, 27, 30, 31, 33, 39, 40}

func vURLParam(tag string) (part string, malformed bool, key string) {
	return vURLParamFrom(tag, nil)
}

func vURLParamFrom(tag string, keys []int) (part string, malformed bool, key string) {
	var ki int
	if keys == nil {
		ki = vConc(vInt(tag+"_key", 0, len(vURLKeys)-1))
	} else {
		ki = keys[vConc(vInt(tag+"_mkey", 0, len(keys)-1))]
	}
	k := vURLKeys[ki]
	switch k.kind {
	case 0:
		c := vConc(vInt(tag+"_cls", 0, len(vIntLits)))
		if c == 0 {
			return vStrf(k.key+"_%d/", vInt(tag+"_num", -(1<<33), 1<<40)), false, k.key
		}
		return k.key + "_" + vIntLits[c-1] + "/", true, k.key
	case 1:
		nl := len(vFloatLits) - 1
		if k.key == "ato" {
			nl++
		}
		c := vConc(vInt(tag+"_fcls_"+k.key, 0, nl))
		if c == 0 {
			// float -> int conversions of out-of-range values are implementation-defined in Go: numbers up to 2^40
			return vStrf(k.key+"_%d/", vInt(tag+"_fnum", -(1<<40), 1<<40)), false, k.key
		}
		l := vFloatLits[c-1]
		return k.key + "_" + l + "/", l == "abc" || l == "", k.key
	case 2:
		return k.key + "_1/", false, k.key
	}
	// (one input name per key: the ranges differ)
	c := vConc(vInt(tag+"_lcls_"+k.key, 0, len(k.lits)-1))
	return k.key + "_" + k.lits[c] + "/", false, k.key
}

func init() {
	vHarnesses["vH_C08_url_one_seg"] = vH_C08_url_one_seg
	vHarnesses["vH_C08_url_one_init"] = vH_C08_url_one_init
	vHarnesses["vH_C08_url_one_audio"] = vH_C08_url_one_audio
	vHarnesses["vH_C08_url_two_seg"] = vH_C08_url_two_seg
	vHarnesses["vH_C08_url_baseurl"] = vH_C08_url_baseurl
	vHarnesses["vH_C08_url_bigseg"] = vH_C08_url_bigseg
	vHarnesses["vH_C08_url_after_bad"] = vH_C08_url_after_bad
	vHarnesses["vH_C08_url_one_mpd"] = vH_C08_url_one_mpd
	vHarnesses["vH_C08_url_startstop_mpd"] = vH_C08_url_startstop_mpd
	vHarnesses["vH_C08_url_periods_mpd"] = vH_C08_url_periods_mpd
	vHarnesses["vH_C08_url_before_bad"] = vH_C08_url_before_bad
}

func vH_C08_url_one_seg()   { vC08URL(1, 0) }
func vH_C08_url_one_init()  { vC08URL(1, 1) }
func vH_C08_url_one_audio() { vC08URL(1, 2) }
func vH_C08_url_two_seg()   { vC08URL(2, 0) }
func vH_C08_url_baseurl()   { vC08URL(1, 3) }

// video segment numbers around and beyond 2^32 (the number is narrowed to 32 bits on the way) with any start number
func vH_C08_url_bigseg() { vC08URL(0, 7) }

// MPD requests (the real LiveMPD behind the real handler; small time-shift window so that the timeline loops stay
// within the unwinding bound): one arbitrary parameter, alone and together with periods_60
func vH_C08_url_one_mpd()     { vC08URL(1, 4) }
func vH_C08_url_periods_mpd() { vC08URL(1, 5) }

// start and stop times in any relation (stop before start, negative, huge), single- and multi-period MPD
func vH_C08_url_startstop_mpd() { vC08URL(0, 6) }

// any parameter after / before a parameter whose value already failed to parse (the parser keeps going and only
// reports the accumulated error at the end, so every later key runs with the converter in its error state)
func vH_C08_url_after_bad()  { vC08URL(3, 0) }
func vH_C08_url_before_bad() { vC08URL(4, 0) }

var vBadParams = []string{"start_abc/", "tsbd_/", "ato_x/"}

// target: 0 video media segment, 1 video init segment, 2 audio media segment, 3 media segment below a bu<k>/ BaseURL
func vC08URL(nParams, target int) {
	a := vAsset_testpic_2s()
	vPrepareRegexps(a)
	vLoadInit(a.Reps["V300"]) // chunked delivery (chunkdur_X) needs the init segments (natively the real ones)
	vLoadInit(a.Reps["A48"])
	vHTTPChunked = false
	now := vInt("now1", 0, 1<<42)
	segID := vInt("segID", 0, 1<<30) // later segments: 64-bit overflow of time x timescale (outside every claim)
	var mpdKeys []int
	if target == 4 || target == 5 {
		mpdKeys = vMPDKeys
	}
	p1, bad1, k1 := "", false, ""
	if nParams > 0 {
		p1, bad1, k1 = vURLParamFrom("p1", mpdKeys)
	}
	params := p1
	malformed := bad1
	twoKeysSame := false
	if nParams == 3 || nParams == 4 {
		bad := vBadParams[vConc(vInt("bad", 0, len(vBadParams)-1))]
		if nParams == 3 {
			params = bad + p1
		} else {
			params = p1 + bad
		}
		malformed = true
	}
	if nParams == 2 {
		p2, bad2, k2 := vURLParam("p2")
		params = vStrf("%d", 0)[:0] + p1 + p2
		malformed = bad1 || bad2
		twoKeysSame = k1 == k2
	}
	_ = twoKeysSame
	var path string
	switch target {
	case 0:
		vStubRep, vStubSegID = a.Reps["V300"], segID
		path = "/livesim2/" + params + vStrf("testpic_2s/V300/%d.m4s", segID)
	case 1:
		vStubRep, vStubSegID = nil, 0
		path = "/livesim2/" + params + "testpic_2s/V300/init.mp4"
	case 2:
		vStubRep, vStubSegID = a.Reps["A48"], segID
		path = "/livesim2/" + params + vStrf("testpic_2s/A48/%d.m4s", segID)
	case 6:
		pre := "/livesim2/tsbd_4/"
		if vBool("multiPeriod") {
			pre += "periods_60/"
		}
		path = pre + vStrf("start_%d/stop_%d/", vInt("startS", 0, 1<<32), vInt("stopS", -(1<<33), 1<<33)) + "testpic_2s/Manifest.mpd"
	case 4:
		path = "/livesim2/tsbd_4/" + params + "testpic_2s/Manifest.mpd"
	case 5:
		path = "/livesim2/tsbd_4/periods_60/" + params + "testpic_2s/Manifest.mpd"
	case 7:
		big := vInt("bigSeg", 1<<32-4, 1<<34)
		vStubRep, vStubSegID = a.Reps["V300"], big
		path = "/livesim2/" + vStrf("snr_%d/", vInt("snr", 0, 1<<20)) + vStrf("testpic_2s/V300/%d.m4s", big)
	case 3:
		vStubRep, vStubSegID = a.Reps["V300"], segID
		bu := vInt("bu", 0, 1<<62)
		path = "/livesim2/traffic_u10d10,d5u5/" + params + vStrf("testpic_2s/bu%d/V300/%d.m4s", bu, segID)
	}
	s := vHTTPServer(a)
	var w *vHW
	crashed := vRunRecover(func() { w = vHTTPGet(s, path, now) })
	vAssert("C08.url.no-crash", !crashed)
	if crashed {
		return
	}
	vAssert("C08.url.answered", w.status != 0)
	if malformed {
		vAssert("C08.url.malformed-number-400", w.status == 400)
	}
	vReach("C08.url.end")
}
