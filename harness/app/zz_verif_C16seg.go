//go:build verif

package app

import (
	"io/fs"
	"log/slog"
	"os"

	"github.com/Eyevinn/mp4ff/mp4"
)

// C16 (last-segment mark): the segment generator used by the ingest sender marks the final segment of a
// duration-limited session with the lmsg brand - for every representation, also audio, whose segments are assembled
// from frames (createAudioSegment) and not decoded from one file. Real genLiveSegment / createOutSeg /
// createAudioSegment; under symbolic execution createAudioSeg (file reads, frame copying) is replaced by a stub that
// returns an empty media segment with a styp box, natively the real function runs on the bundled asset.

func init() {
	vHarnesses["vH_C16_last_segment_mark_audio"] = vH_C16_last_segment_mark_audio
}

func vStubCreateAudioSegStyp(vodFS fs.FS, a *asset, recipe audioRecipe) (*mp4.MediaSegment, error) {
	return mp4.NewMediaSegment(), nil
}

func vH_C16_last_segment_mark_audio() {
	a := vAsset_testpic_2s()
	vPrepareRegexps(a)
	rep := a.Reps["A48"]
	vLoadInit(rep)
	ref := a.refRep
	startNr := vInt("startNr", 0, 1<<20)
	startS := vInt("startS", 0, 1<<24)
	n := vInt("n", 0, 1<<16)
	isLast := vBool("isLast")
	rel := vInt("rel1", 0, 1<<36)
	now := 1000*startS + rel
	end := vSegEndTicks(a, ref, n)
	ts := ref.MediaTimescale
	vAssume(1000*end <= rel*ts && rel*ts <= 1000*end+60000*ts)
	cfg := vCfg(startS, startNr, 60)
	segID := startNr + n
	segPart := vSegName(rep.MediaURI, segID)
	vStubRep, vStubSegID = rep, segID
	so, err := genLiveSegment(slog.Default(), os.DirFS("testdata/assets"), a, cfg, segPart, now, isLast)
	vAssert("C16.lastmark.ok", err == nil)
	if err != nil {
		return
	}
	vAssert("C16.lastmark.audio-segment-built", so.seg != nil && so.seg.Styp != nil)
	if so.seg == nil || so.seg.Styp == nil {
		return
	}
	vAssert("C16.lastmark.audio-lmsg-iff-last", vHasBrand(so.seg.Styp, "lmsg") == isLast)
	vReach("C16.lastmark.end")
}

// C16 (pacing instant): the sender waits for calcSegmentAvailabilityTime of the next segment. For every segment of an
// asset with non-uniform segment durations (alternating 4 s / 8 s) and of the uniform 2 s asset, any start number and
// start time, and offsets 0 / 500 / 1500 ms: the instant is availabilityStartTime + exact end of the looped segment
// - offset (1 ms slack for the float arithmetic) - not start + nominal duration.
func init() {
	vHarnesses["vH_C16_availability_alt"] = vH_C16_availability_alt
	vHarnesses["vH_C16_availability_2s"] = vH_C16_availability_2s
}

func vH_C16_availability_alt() { vC16Avail(vAsset_testpic_alt_seg_dur_stl(), "V300") }
func vH_C16_availability_2s()  { vC16Avail(vAsset_testpic_2s(), "V300") }

func vC16Avail(a *asset, repID string) {
	rep := a.Reps[repID]
	ts := rep.MediaTimescale
	startNr := vInt("startNr", 0, 1<<16)
	startS := vInt("startS", 0, 1<<31)
	n := vInt("n", 0, 1<<24)
	atoMS := [3]int{0, 500, 1500}[vConc(vInt("atoIdx", 0, 2))]
	cfg := vCfg(startS, startNr, 60)
	cfg.AvailabilityTimeOffsetS = float64(atoMS) / 1000.0
	got, err := calcSegmentAvailabilityTime(a, rep, uint32(startNr+n), cfg)
	vAssert("C16.avail.ok", err == nil)
	end := vSegEndTicks(a, rep, n)
	// want = 1000*startS + 1000*end/ts - atoMS, compared in ticks*1000 to stay in integers
	lhs := (int(got) - 1000*startS + atoMS) * ts
	vAssert("C16.avail.not-before-segment-end-minus-offset-1ms", lhs+ts >= 1000*end)
	vAssert("C16.avail.not-after-segment-end-minus-offset+1ms", lhs-ts <= 1000*end)
	vReach("C16.avail.end")
}
