//go:build verif

package app

import (
	"bytes"

	"github.com/Eyevinn/mp4ff/mp4"
)

// vWrittenSpans decodes what was written to the client and returns the media span of every fragment (native side).
func vWrittenSpans(w *vRW2) []int {
	f, err := mp4.DecodeFile(bytes.NewReader(w.buf.Bytes()))
	if err != nil {
		panic("vWrittenSpans: " + err.Error())
	}
	var out []int
	for _, s := range f.Segments {
		for _, fr := range s.Fragments {
			ss, err := fr.GetFullSamples(nil)
			if err != nil {
				panic(err)
			}
			span := 0
			for _, x := range ss {
				span += int(x.Dur)
			}
			out = append(out, span)
		}
	}
	return out
}

func vContentTypeOf(w *vRW2) string { return w.hdr.Get("Content-Type") }
