//go:build verif

package app

import "time"

// native side: the writer stamps every Flush (one per chunk) with the wall-clock time since the request started
func vPaceStart(w *vRW3)       { w.t0 = time.Now() }
func vPaceTimes(w *vRW3) []int { return w.flushT }
func vPaceSpans(w *vRW3) []int { return vWrittenSpans(&w.vRW2) }
