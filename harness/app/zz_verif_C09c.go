//go:build verif

package app

import (
	"context"
	"log/slog"
	"net/http"
	"os"
	"time"
)

// C09 (pacing): the real writeChunkedSegment for a request that arrives while the segment is still being produced.
// Every chunk is written at an instant (request instant + time spent in the handler) that is not earlier than the
// end of the media the chunk carries: AST + segment start + media delivered so far, floored to milliseconds as the
// server does. One-frame chunks (60 per segment) so that rounding errors that build up per chunk become visible.
// Under symbolic execution the clock is a model clock that only advances inside time.Sleep (a real clock can only
// be later), the segment generator / mp4 plumbing / chunk writer are the recording stubs of vC09Write; natively the
// real handler runs against the wall clock and the written bytes are decoded again.

func init() {
	vHarnesses["vH_C09_pacing_testpic2s"] = vH_C09_pacing_testpic2s
}

var vClkMS int // model clock (ms)

func vStubUnixMSClk() int { return vClkMS }

func vStubSleepClk(d time.Duration) {
	vAssert("C09.pace.sleep-not-negative", d >= 0)
	vClkMS += int(d / time.Millisecond)
}

var vPaceT []int // handler time (ms since the request) at which each chunk was written

func vStubWriteChunkClk(w http.ResponseWriter, chk chunk) error {
	vPaceT = append(vPaceT, vClkMS)
	return vStubWriteChunk(w, chk)
}

func vStubPaceTimes(w *vRW3) []int { return vPaceT }
func vStubPaceSpans(w *vRW3) []int { return vSpans }
func vStubPaceStart(w *vRW3)       { vClkMS, vPaceT = 0, nil }

type vRW3 struct {
	vRW2
	t0     time.Time
	flushT []int
}

func (w *vRW3) Flush() { w.flushT = append(w.flushT, int(time.Since(w.t0)/time.Millisecond)) }

func vH_C09_pacing_testpic2s() {
	a := vAsset_testpic_2s()
	vPrepareRegexps(a)
	rep := a.Reps["V300"]
	vLoadInit(rep)
	const frames, frameDur = 60, 3000
	ts := rep.MediaTimescale
	N := len(rep.Segments)
	startNr := vInt("startNr", 0, 1<<20)
	startS := vInt("startS", 0, 1<<31)
	r := vConc(vInt("r", 0, N-1))
	q := vInt("q", 0, 1<<24)
	n := q*N + r
	// chunk duration = one frame: ato = segment duration - 34 ms (33 ms would cut at 2970 < 3000 ticks as well)
	atoMS := a.SegmentDurMS - 34
	cfg := vCfg(startS, startNr, 60)
	cfg.AvailabilityTimeOffsetS = float64(atoMS) / 1000.0
	cfg.AvailabilityTimeCompleteFlag = false
	start, end := vSegStartTicks(a, rep, n), vSegEndTicks(a, rep, n)
	// the request arrives in the last 400 ms of the segment's production (the first 48 chunks are due at once)
	rel := vInt("rel1", 0, 1<<41)
	now := 1000*startS + rel
	vAssume(1000*end-400*ts <= rel*ts && rel*ts < 1000*end)
	segID := startNr + n
	segPart := vSegName(rep.MediaURI, segID)
	vStubRep, vStubSegID = rep, segID
	durs := make([]uint32, frames)
	for i := range durs {
		durs[i] = frameDur
	}
	vMkSegment(durs)
	vGenMeta = segMeta{rep: rep, newTime: uint64(start), newNr: uint32(startNr + n), newDur: uint32(end - start), timescale: uint32(ts)}
	vSpans, vSpanIdx = nil, 0
	w := &vRW3{vRW2: vRW2{hdr: http.Header{}}}
	vPaceStart(w)
	err := writeChunkedSegment(context.Background(), slog.Default(), w, cfg, nil, os.DirFS("testdata/assets"), a, segPart, now, false)
	vAssert("C09.pace.ok", err == nil)
	if err != nil {
		return
	}
	times, spans := vPaceTimes(w), vPaceSpans(w)
	vAssert("C09.pace.one-time-per-chunk", len(times) == len(spans))
	media := 0
	for i := range spans {
		media += spans[i]
		if i < len(times) {
			// the chunk's media ends at AST + (start + media)/ts; floor to ms
			availRelMS := (start + media) * 1000 / ts
			// 1 ms slack: the server reads its clock in whole milliseconds, so it may believe up to 1 ms more has passed
			vAssert("C09.pace.chunk-not-written-before-its-media-ends", rel+times[i]+1 >= availRelMS)
		}
	}
	vAssert("C09.pace.all-media-written", media == frames*frameDur)
	vReach("C09.pace.end")
}
