//go:build verif

package app

import (
	"regexp"
	"strings"
	"time"

	m "github.com/Eyevinn/dash-mpd/mpd"
	"github.com/Eyevinn/mp4ff/mp4"
)

// vDateTimeMS parses a DateTime written by the real code back to Unix milliseconds (native side).
// Under symbolic execution it is replaced by vStubDateTimeMS (the ms value handed to the stubbed formatter).
func vDateTimeMS(dt m.DateTime) int {
	t, err := time.Parse(m.RFC3339MS, string(dt))
	if err != nil {
		panic("vDateTimeMS: " + err.Error())
	}
	return int(t.UnixMilli())
}

// vPrepareRegexps does natively what addRegExpAndInit does for the media pattern (the generated
// asset tables carry no compiled regexps). Under symbolic execution it is a no-op stub.
func vPrepareRegexps(a *asset) {
	for _, r := range a.Reps {
		rex := strings.ReplaceAll(r.MediaURI, "$Number$", `(\d+)`)
		rex = strings.ReplaceAll(rex, "$Time$", `(\d+)`)
		r.mediaRegexp = regexp.MustCompile(rex)
	}
}

// vSamplesOf returns the samples written into a generated segment (native side: decoded from the real fragment).
func vSamplesOf(seg *mp4.MediaSegment) []mp4.FullSample {
	ss, err := seg.Fragments[0].GetFullSamples(nil)
	if err != nil {
		panic("vSamplesOf: " + err.Error())
	}
	return ss
}
