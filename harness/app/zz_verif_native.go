//go:build verif

package app

import (
	"regexp"
	"strings"
)

// vPrepareRegexps does natively what addRegExpAndInit does for the media pattern (the generated
// asset tables carry no compiled regexps). Under symbolic execution it is a no-op stub.
func vPrepareRegexps(a *asset) {
	for _, r := range a.Reps {
		rex := strings.ReplaceAll(r.MediaURI, "$Number$", `(\d+)`)
		rex = strings.ReplaceAll(rex, "$Time$", `(\d+)`)
		r.mediaRegexp = regexp.MustCompile(rex)
	}
}
