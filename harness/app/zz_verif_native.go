//go:build verif

package app

import (
	"net/url"
	"os"
	"regexp"
	"strconv"
	"strings"
	"time"

	m "github.com/Eyevinn/dash-mpd/mpd"
	"github.com/Eyevinn/mp4ff/mp4"
)

// vDateTimeMS parses a DateTime written by the real code back to Unix milliseconds (native side).
// Under symbolic execution it is replaced by vStubDateTimeMS (the ms value handed to the stubbed formatter).
func vDateTimeMS(dt m.DateTime) int {
	t, err := time.Parse(m.RFC3339MS, string(dt))
	if err != nil {
		panic("vDateTimeMS: " + err.Error())
	}
	return int(t.UnixMilli())
}

// vPrepareRegexps does natively what addRegExpAndInit does for the media pattern (the generated
// asset tables carry no compiled regexps). Under symbolic execution it is a no-op stub.
func vPrepareRegexps(a *asset) {
	for _, r := range a.Reps {
		rex := strings.ReplaceAll(r.MediaURI, "$Number$", `(\d+)`)
		rex = strings.ReplaceAll(rex, "$Time$", `(\d+)`)
		r.mediaRegexp = regexp.MustCompile(rex)
	}
}

// vSamplesOf returns the samples written into a generated segment (native side: decoded from the real fragment).
func vSamplesOf(seg *mp4.MediaSegment) []mp4.FullSample {
	ss, err := seg.Fragments[0].GetFullSamples(nil)
	if err != nil {
		panic("vSamplesOf: " + err.Error())
	}
	return ss
}

// vMkSegment builds a real one-fragment segment (and init segment) with the given sample durations (native side).
func vMkSegment(durs []uint32) (*mp4.InitSegment, *mp4.MediaSegment) {
	init := mp4.CreateEmptyInit()
	init.AddEmptyTrack(90000, "video", "und")
	seg := mp4.NewMediaSegment()
	frag, err := mp4.CreateFragment(1, 1)
	if err != nil {
		panic(err)
	}
	seg.AddFragment(frag)
	for i, d := range durs {
		frag.AddFullSample(mp4.FullSample{Sample: mp4.Sample{Flags: mp4.SyncSampleFlags, Dur: d, Size: uint32(i + 1)}, DecodeTime: 0, Data: make([]byte, i+1)})
	}
	return init, seg
}

// vChunkSamples decodes the samples of a chunk's real fragment (native side).
func vChunkSamples(init *mp4.InitSegment, ch chunk) []mp4.FullSample {
	ss, err := ch.frag.GetFullSamples(init.Moov.Mvex.Trex)
	if err != nil {
		panic("vChunkSamples: " + err.Error())
	}
	return ss
}

// vMkStppSegment builds a real one-sample stpp-like segment whose sample is a TTML snippet with begin 00:00:00.000
// (native side; under symbolic execution vStubMkStppSegment builds the box skeleton).
func vMkStppSegment(tfdt uint64) *mp4.MediaSegment {
	seg := mp4.NewMediaSegment()
	frag, err := mp4.CreateFragment(1, 1)
	if err != nil {
		panic(err)
	}
	seg.AddFragment(frag)
	data := []byte(`<p begin="00:00:00.000" end="00:00:01.000">x</p>`)
	frag.AddFullSample(mp4.FullSample{Sample: mp4.Sample{Flags: mp4.SyncSampleFlags, Dur: 1000, Size: uint32(len(data))}, DecodeTime: tfdt, Data: data})
	return seg
}

// vStppShiftMSOf reads the shift applied to the TTML timestamps back from the rewritten sample (native side).
func vStppShiftMSOf(seg *mp4.MediaSegment) int {
	s := string(seg.Fragments[0].Mdat.Data)
	i := strings.Index(s, `begin="`)
	if i < 0 {
		panic("vStppShiftMSOf: no begin attribute")
	}
	st := s[i+7:]
	j := strings.Index(st, `"`)
	st = st[:j] // H+:MM:SS.mmm
	parts := strings.Split(st, ":")
	h, _ := strconv.Atoi(parts[0])
	mi, _ := strconv.Atoi(parts[1])
	sec, _ := strconv.Atoi(parts[2][:2])
	ms := 0
	if len(parts[2]) > 3 {
		ms, _ = strconv.Atoi(parts[2][3:])
	}
	return ((h*60+mi)*60+sec)*1000 + ms
}

// vPatchPublishMS extracts the publishTime query parameter of a patch location and returns it in Unix ms (native side).
func vPatchPublishMS(loc string) int {
	u, err := url.Parse(loc)
	if err != nil {
		panic(err)
	}
	return vDateTimeMS(m.DateTime(u.Query().Get("publishTime")))
}

// vLoadInit loads the real init segment of rep (native side; the generated asset tables carry no boxes).
func vLoadInit(rep *RepData) {
	raw, err := os.ReadFile("testdata/assets/testpic_2s/" + rep.InitURI)
	if err != nil {
		panic(err)
	}
	rep.initSeg, err = getInitSeg(raw)
	if err != nil {
		panic(err)
	}
}
