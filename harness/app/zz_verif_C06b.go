//go:build verif

package app

import (
	m "github.com/Eyevinn/dash-mpd/mpd"
)

// C06 (glue): the whole LiveMPD with periods_N - optionally with a stop time that may already have passed.
// The periods tile the time since availabilityStartTime (period k starts at k*periodDuration, id "P<k>"), the first
// one contains the start of the time-shift window, the last one the instant min(now, stop) the MPD describes - so the
// period structure a client saw before the stop time is still there afterwards - and every listed segment lies inside
// its own period.

func init() {
	vHarnesses["vH_C06_livempd_time_pph1800"] = vH_C06_livempd_time_pph1800
	vHarnesses["vH_C06_livempd_nr_pph1800"] = vH_C06_livempd_nr_pph1800
	vHarnesses["vH_C06_livempd_number_pph1800"] = vH_C06_livempd_number_pph1800
}

func vH_C06_livempd_time_pph1800()   { vC06LiveMPD(vAsset_testpic_2s(), 1, 1800, 5) }
func vH_C06_livempd_nr_pph1800()     { vC06LiveMPD(vAsset_testpic_2s(), 2, 1800, 5) }
func vH_C06_livempd_number_pph1800() { vC06LiveMPD(vAsset_testpic_2s(), 0, 1800, 5) }

func vC06LiveMPD(a *asset, mode, pph, maxTsbd int) {
	startS := vInt("startS", 0, 1<<31)
	tsbd := vInt("tsbd", 0, maxTsbd)
	rel := vInt("rel1", 0, 1<<41)
	now := 1000*startS + rel
	cfg := vCfg(startS, 0, tsbd)
	cfg.PeriodsPerHour = Ptr(pph)
	switch mode {
	case 1:
		cfg.SegTimelineFlag = true
	case 2:
		cfg.SegTimelineNrFlag = true
	}
	hasStop := vBool("hasStop")
	stopS := 0
	if hasStop {
		stopS = startS + vInt("stopRelS", 1, 1<<31)
		cfg.StopTimeS = Ptr(stopS)
	}
	mpd, err := LiveMPD(a, "Manifest.mpd", cfg, nil, now)
	vAssert("C06.livempd.ok", err == nil)
	if err != nil {
		return
	}
	endRel := rel // the instant the MPD describes, relative to AST (ms)
	afterStop := hasStop && stopS*1000 < now
	if afterStop {
		endRel = (stopS - startS) * 1000
		vAssert("C06.livempd.static-after-stop", mpd.Type != nil && *mpd.Type == "static")
	}
	periodDur := 3600 / pph
	nP := len(mpd.Periods)
	vAssert("C06.livempd.at-least-one-period", nP >= 1)
	if nP < 1 {
		return
	}
	vAssert("C06.livempd.first-period-has-start", mpd.Periods[0].Start != nil)
	if mpd.Periods[0].Start == nil {
		return
	}
	firstK := int(*mpd.Periods[0].Start) / 1_000_000_000 / periodDur
	wt := calcWrapTimes(a, cfg, 1000*startS+endRel, *m.Seconds2DurPtr(tsbd))
	winRel := wt.startTimeMS - 1000*startS
	vAssert("C06.livempd.last-period-contains-described-instant", (firstK+nP-1)*periodDur*1000 <= endRel && endRel < (firstK+nP)*periodDur*1000)
	vAssert("C06.livempd.first-period-contains-window-start", firstK*periodDur*1000 <= winRel && winRel < (firstK+1)*periodDur*1000)
	for i := 0; i < nP; i++ {
		p := mpd.Periods[i]
		k := firstK + i
		vAssert("C06.livempd.period-start", p.Start != nil && int(*p.Start) == k*periodDur*1_000_000_000)
		vAssert("C06.livempd.period-id", p.Id == vStrf("P%d", k))
		for _, as := range p.AdaptationSets {
			st := as.SegmentTemplate
			if st == nil || st.SegmentTimeline == nil || as.ContentType != "video" {
				continue
			}
			ts := int(st.GetTimescale())
			for _, e := range vExpand(segEntries{entries: st.SegmentTimeline.S}) {
				vAssert("C06.livempd.entry-inside-its-period", int(e.t) >= k*periodDur*ts && int(e.t) < (k+1)*periodDur*ts)
			}
		}
	}
	if mode == 0 {
		// $Number$ with several periods: the MPD changes when a new period starts - publishTime is the (absolute)
		// start of the last period
		// (computed in float seconds by the server: 1 ms tolerance)
		want := 1000*startS + (firstK+nP-1)*periodDur*1000
		pub := vDateTimeMS(mpd.PublishTime)
		vAssert("C06.livempd.number.publishTime-is-last-period-start", pub >= want-1 && pub <= want+1)
	} else {
		vAssert("C06.livempd.publishTime-not-in-future", vDateTimeMS(mpd.PublishTime) <= now)
	}
	vReach("C06.livempd.end")
}
