//go:build verif

package app

import (
	m "github.com/Eyevinn/dash-mpd/mpd"
	"github.com/Eyevinn/mp4ff/mp4"
)

// C12 — generated time subtitles show the right UTC second at the right media time.

func init() {
	vHarnesses["vH_C12_cues_short"] = vH_C12_cues_short
	vHarnesses["vH_C12_cues_1000"] = vH_C12_cues_1000
	vHarnesses["vH_C12_cues_long"] = vH_C12_cues_long
	vHarnesses["vH_C12_wvtt"] = vH_C12_wvtt
	vHarnesses["vH_C12_meta_testpic2s_nr"] = vH_C12_meta_testpic2s_nr
	vHarnesses["vH_C12_meta_testpic2s_time"] = vH_C12_meta_testpic2s_time
	vHarnesses["vH_C12_meta_wave2997_time"] = vH_C12_meta_wave2997_time
	vHarnesses["vH_C12_meta_syn_subsecond_time"] = vH_C12_meta_syn_subsecond_time
	vHarnesses["vH_C12_mpd_testpic2s"] = vH_C12_mpd_testpic2s
	vHarnesses["vH_C12_mpd_wave2997"] = vH_C12_mpd_wave2997
	vHarnesses["vH_C12_mpd_alt"] = vH_C12_mpd_alt
}

// cue durations 1..999 ms (ceil(cueDur/1000) = 1), exactly 1000 ms, and longer ones
func vH_C12_cues_short() { vC12Cues(vInt("cueDur", 1, 999), 10000, "C12.cues") }
func vH_C12_cues_1000()  { vC12Cues(1000, 10000, "C12.cues") }
func vH_C12_cues_long()  { vC12Cues(1500, 4000, "C12.longcue") }

// vC12Cues: for every UTC second S intersecting the segment there is exactly one cue, with utcS = S,
// starting at max(S*1000, segment start), ending at min(start of S + cueDur, next cue, segment end);
// cues are ordered, non-overlapping, non-empty and inside the segment. A cue whose clipped interval
// is empty (it ended before the segment starts) is not emitted.
func vC12Cues(cueDur, maxSegDur int, p string) {
	segStart := vInt("segStart", 0, 1<<41)
	segDur := vInt("segDur", 1, maxSegDur)
	startS := vInt("startS", 0, 1<<32-1)
	utcStart := segStart + 1000*startS // as writeTimeSubsMediaSegment computes it
	utcEnd := utcStart + segDur
	cues := calcCueItvls(segStart, segDur, utcStart, cueDur)

	firstS := utcStart / 1000
	lastS := (utcEnd - 1) / 1000 // last second with [S*1000, S*1000+1000) intersecting [utcStart, utcEnd)
	k := 0
	prevEnd := segStart
	for S := firstS; S <= lastS; S++ {
		wantStart := S * 1000
		if wantStart < utcStart {
			wantStart = utcStart
		}
		wantEnd := S*1000 + cueDur
		if (S+1)*1000 < wantEnd {
			wantEnd = (S + 1) * 1000 // must not overlap the next second's cue
		}
		if utcEnd < wantEnd {
			wantEnd = utcEnd
		}
		if wantEnd <= wantStart {
			continue // nothing of this second's cue falls into the segment
		}
		vAssert(p+".one-cue-per-second", k < len(cues))
		if k < len(cues) {
			c := cues[k]
			vAssert(p+".utc-second", c.utcS == S)
			vAssert(p+".start", c.startMS == wantStart-1000*startS)
			vAssert(p+".end", c.endMS == wantEnd-1000*startS)
			vAssert(p+".inside-segment-start", c.startMS >= segStart)
			vAssert(p+".inside-segment-end", c.endMS <= segStart+segDur)
			vAssert(p+".ordered", c.startMS >= prevEnd)
			vAssert(p+".non-empty", c.startMS < c.endMS)
			prevEnd = c.endMS
		}
		k++
	}
	vAssert(p+".no-extra-cues", k == len(cues))
	vReach("C12.cues.end")
}

// ---- wvtt sample tiling: mp4 plumbing stubbed, FullSamples recorded ----

var vRecSamples []mp4.FullSample

func vStubAddFullSample(f *mp4.Fragment, s mp4.FullSample) { vRecSamples = append(vRecSamples, s) }
func vStubNewMediaSegment() *mp4.MediaSegment              { return &mp4.MediaSegment{} }
func vStubCreateFragment(seqNr uint32, trackID uint32) (*mp4.Fragment, error) {
	return &mp4.Fragment{}, nil
}
func vStubAddFragment(s *mp4.MediaSegment, f *mp4.Fragment) {}
var vLongCueTable = [3]int{1500, 2500, 3700}

type vWvttCall struct{ region, utcMS, segNr int }

var vWvttCalls []vWvttCall

// the payload builder (vttc/payl box encoding, time formatting) is stubbed: the returned bytes name the call
func vStubWvttCuePayload(lang string, region, utcMS, segNr int) []byte {
	vWvttCalls = append(vWvttCalls, vWvttCall{region, utcMS, segNr})
	return []byte{byte(len(vWvttCalls) - 1)}
}

func vStubWvttCueInfo(data []byte) (utcMS, segNr, region int) {
	c := vWvttCalls[int(data[0])]
	return c.utcMS, c.segNr, c.region
}
func vStubSamplesOf(seg *mp4.MediaSegment) []mp4.FullSample { return vRecSamples }

func vH_C12_wvtt() {
	bmdt := vInt("segStart", 0, 1<<41)
	dur := vInt("segDur", 1, 6000)
	startS := vInt("startS", 0, 1<<32-1)
	cueDur := vInt("cueDur", 1, 999)
	if vBool("longCue") {
		// cue durations above one second (own cue grid of ceil(cueDur/1000) seconds): concrete values
		cueDur = vLongCueTable[vConc(vInt("longCueIdx", 0, len(vLongCueTable)-1))]
	}
	vRecSamples, vWvttCalls = nil, nil
	nr := vInt("nr", 0, 1<<31)
	region := vConc(vInt("region", 0, 1))
	seg, err := createSubtitlesWvttMediaSegment(uint32(nr), uint64(bmdt), uint32(dur), "en", uint64(bmdt+1000*startS), cueDur, region)
	vAssert("C12.wvtt.ok", err == nil)
	ss := vSamplesOf(seg)
	// the cue samples (everything but the 8-byte empty-cue filler) are the cue grid, in order, and their payload is built
	// for that cue's UTC second, this segment number and the configured region
	want := calcCueItvls(bmdt, dur, bmdt+1000*startS, cueDur)
	k := 0
	for i := range ss {
		if len(ss[i].Data) == 8 {
			continue
		}
		vAssert("C12.wvtt.cue-sample-has-a-cue", k < len(want))
		if k < len(want) {
			vAssert("C12.wvtt.cue-sample-start", int(ss[i].DecodeTime) == want[k].startMS)
			vAssert("C12.wvtt.cue-sample-duration", int(ss[i].Dur) == want[k].endMS-want[k].startMS)
			u, n, rg := vWvttCueInfo(ss[i].Data)
			vAssert("C12.wvtt.cue-payload-utc-second", u == want[k].utcS*1000)
			vAssert("C12.wvtt.cue-payload-segment-number", n == nr)
			vAssert("C12.wvtt.cue-payload-region", rg == region)
		}
		k++
	}
	vAssert("C12.wvtt.every-cue-has-a-sample", k == len(want))
	vAssert("C12.wvtt.nonempty", len(ss) >= 1)
	t := uint64(bmdt)
	for i := range ss {
		vAssert("C12.wvtt.contiguous", ss[i].DecodeTime == t)
		vAssert("C12.wvtt.positive-dur", ss[i].Dur >= 1)
		vAssert("C12.wvtt.dur-inside", int(ss[i].Dur) <= dur)
		t += uint64(ss[i].Dur)
	}
	vAssert("C12.wvtt.tiles-segment", t == uint64(bmdt+dur))
	vReach("C12.wvtt.end")
}

// ---- number, decode time and duration (ms) of the generated segment = those of the reference video segment ----

func vH_C12_meta_testpic2s_nr()   { vC12Meta(vAsset_testpic_2s(), 0) }
func vH_C12_meta_testpic2s_time() { vC12Meta(vAsset_testpic_2s(), 1) }
func vH_C12_meta_wave2997_time() {
	vC12Meta(vAsset_WAVE_vectors_cfhd_sets_14_985_29_97_59_94_t1_2022_10_17(), 1)
}
func vH_C12_meta_syn_subsecond_time() { vC12Meta(vAsset_syn_subsecond(), 1) }

func vC12Meta(a *asset, mode int) {
	ref := a.refRep
	ts := ref.MediaTimescale
	startNr := vInt("startNr", 0, 1<<20)
	startS := vInt("startS", 0, 1<<32-1)
	n := vInt("n", 0, 1<<26)
	cfg := vCfg(startS, startNr, 60)
	cfg.AvailabilityTimeOffsetS = vInf()
	startTicks, endTicks := vSegStartTicks(a, ref, n), vSegEndTicks(a, ref, n)
	// exact ms values (the tables used here have segment boundaries on whole milliseconds)
	vAssume(1000*startTicks%ts == 0)
	vAssume(1000*endTicks%ts == 0)
	startMS, endMS := 1000*startTicks/ts, 1000*endTicks/ts
	id := startNr + n
	if mode == 1 {
		cfg.SegTimelineFlag = true
		id = startMS // the MPD's $Time$ in the subtitle timescale (ms)
	}
	sm, err := a.getRefSegMeta(id, cfg, 0)
	vAssert("C12.meta.ok", err == nil)
	if err == nil {
		vAssert("C12.meta.number", int(sm.newNr) == startNr+n)
		bmdt := rep2SubsTime(sm.newTime, int(sm.timescale))
		dur := uint32(rep2SubsTime(uint64(sm.newDur), int(sm.timescale)))
		vAssert("C12.meta.decode-time-ms", int(bmdt) == startMS)
		vAssert("C12.meta.duration-ms", int(dur) == endMS-startMS)
	}
	vReach("C12.meta.end")
}

// ---- the subtitle SegmentTimeline in the MPD mirrors the video timeline in milliseconds ----

func vH_C12_mpd_testpic2s() { vC12MPD(vAsset_testpic_2s(), "V300", 5) }
func vH_C12_mpd_wave2997() {
	vC12MPD(vAsset_WAVE_vectors_cfhd_sets_14_985_29_97_59_94_t1_2022_10_17(), "1", 5)
}
func vH_C12_mpd_alt() { vC12MPD(vAsset_testpic_alt_seg_dur_stl(), "V300", 13) }

func vC12MPD(a *asset, repID string, maxTsbd int) {
	rep := a.Reps[repID]
	ts := rep.MediaTimescale
	startS := vInt("startS", 0, 1<<32-1)
	tsbd := vInt("tsbd", 0, maxTsbd)
	rel := vInt("rel1", 0, 1<<41)
	now := 1000*startS + rel
	cfg := vCfg(startS, 0, tsbd)
	cfg.SegTimelineFlag = true
	se := a.generateTimelineEntries(repID, calcWrapTimes(a, cfg, now, *m.Seconds2DurPtr(tsbd)), 0)
	if se.startNr < 0 {
		vReach("C12.mpd.end-empty")
		return
	}
	vstl := &m.SegmentTimelineType{S: se.entries}
	sub := changeTimelineTimescale(vstl, ts, SUBS_TIME_TIMESCALE)
	subSE := segEntries{entries: sub.S, startNr: se.startNr}
	vid, subs := vExpand12(se), vExpand12(subSE)
	vAssert("C12.mpd.same-count", len(vid) == len(subs))
	for k := range vid {
		if k < len(subs) {
			// video entry k in ms (exact for these tables) equals subtitle entry k
			vAssert("C12.mpd.time-ms", int(subs[k].t)*ts == 1000*int(vid[k].t))
			vAssert("C12.mpd.dur-ms", int(subs[k].d)*ts == 1000*int(vid[k].d))
		}
	}
	vReach("C12.mpd.end")
}

type vEntry12 struct{ t, d uint64 }

func vExpand12(se segEntries) []vEntry12 {
	out := make([]vEntry12, 0, 16)
	t := uint64(0)
	for _, s := range se.entries {
		if s.T != nil {
			t = *s.T
		}
		for j := 0; j <= s.R; j++ {
			out = append(out, vEntry12{t: t, d: s.D})
			t += s.D
		}
	}
	return out
}
