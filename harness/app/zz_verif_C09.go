//go:build verif

package app

import (
	"fmt"

	"github.com/Eyevinn/mp4ff/mp4"
)

// C09 — low-latency chunked delivery is the same media, never delivered early (chunking kernel).

func init() {
	vHarnesses["vH_C09_chunks_k4"] = vH_C09_chunks_k4
	vHarnesses["vH_C09_chunks_k6"] = vH_C09_chunks_k6
}

func vH_C09_chunks_k4() { vC09Chunks(4) }
func vH_C09_chunks_k6() { vC09Chunks(6) }

// ---- stubs for the mp4 plumbing under symbolic execution ----

var vSegSamples []mp4.FullSample // samples of the segment handed to chunkSegment

type vFragSample struct {
	frag *mp4.Fragment
	s    mp4.FullSample
}

var vFragLog []vFragSample

func vStubGetFullSamples(f *mp4.Fragment, trex *mp4.TrexBox) ([]mp4.FullSample, error) {
	out := make([]mp4.FullSample, len(vSegSamples))
	copy(out, vSegSamples)
	return out, nil
}

func vStubFragAddFullSample(f *mp4.Fragment, s mp4.FullSample) {
	vFragLog = append(vFragLog, vFragSample{f, s})
}

func vStubCreateFragmentC09(seqNr uint32, trackID uint32) (*mp4.Fragment, error) {
	return &mp4.Fragment{}, nil
}

// vStubMkSegment: the segment and init segment objects chunkSegment dereferences.
func vStubMkSegment(durs []uint32) (*mp4.InitSegment, *mp4.MediaSegment) {
	vSegSamples = make([]mp4.FullSample, len(durs))
	for i, d := range durs {
		vSegSamples[i] = mp4.FullSample{Sample: mp4.Sample{Dur: d, Size: uint32(i + 1)}, DecodeTime: 0}
	}
	vFragLog = nil
	init := &mp4.InitSegment{Moov: &mp4.MoovBox{Mvex: &mp4.MvexBox{Trex: &mp4.TrexBox{}}, Trak: &mp4.TrakBox{Tkhd: &mp4.TkhdBox{TrackID: 1}}}}
	seg := &mp4.MediaSegment{Styp: &mp4.StypBox{}, Fragments: []*mp4.Fragment{{}}}
	return init, seg
}

func vStubChunkSamples(init *mp4.InitSegment, ch chunk) []mp4.FullSample {
	var out []mp4.FullSample
	for _, fs := range vFragLog {
		if fs.frag == ch.frag {
			out = append(out, fs.s)
		}
	}
	return out
}

// vC09Chunks: for a segment of k samples with arbitrary durations and any chunk duration, the chunks
// contain exactly the segment's samples in order with decode times running from the segment start, the
// first chunk (only) carries styp, no chunk spans more than chunkDur plus one sample, and the pacing
// duration of a chunk is never shorter than the media it contains (so it cannot be written early).
func vC09Chunks(k int) {
	durs := make([]uint32, k)
	total, maxDur := 0, 0
	for i := range durs {
		d := vInt(fmt.Sprintf("d%d", i), 1, 4000)
		durs[i] = uint32(d)
		total += d
		if d > maxDur {
			maxDur = d
		}
	}
	chunkDur := vInt("chunkDur", 1, 30000)
	newTime := vInt("newTime", 0, 1<<48)
	newNr := vInt("newNr", 0, 1<<31)
	init, seg := vMkSegment(durs)
	meta := segMeta{newTime: uint64(newTime), newNr: uint32(newNr), newDur: uint32(total), timescale: 90000}
	chunks, err := chunkSegment(init, seg, meta, chunkDur)
	vAssert("C09.chunks.ok", err == nil)
	vAssert("C09.chunks.nonempty", len(chunks) >= 1)
	idx := 0
	t := newTime
	paced := 0
	for c := range chunks {
		ss := vChunkSamples(init, chunks[c])
		vAssert("C09.chunks.no-empty-chunk", len(ss) >= 1)
		if c == 0 {
			vAssert("C09.chunks.first-has-styp", chunks[c].styp == seg.Styp)
		} else {
			vAssert("C09.chunks.others-no-styp", chunks[c].styp == nil)
		}
		span := 0
		for _, s := range ss {
			vAssert("C09.chunks.sample-in-order", idx < k)
			if idx < k {
				vAssert("C09.chunks.sample-identity", s.Size == uint32(idx+1) && s.Dur == durs[idx])
				vAssert("C09.chunks.decode-time", int(s.DecodeTime) == t)
				t += int(durs[idx])
				span += int(durs[idx])
			}
			idx++
		}
		vAssert("C09.chunks.span-at-most-chunkDur-plus-a-sample", span <= chunkDur+maxDur)
		vAssert("C09.chunks.pacing-not-shorter-than-media", int(chunks[c].dur) >= span)
		paced += int(chunks[c].dur)
	}
	vAssert("C09.chunks.all-samples", idx == k)
	vAssert("C09.chunks.pacing-total-covers-segment", paced >= total)
	vReach("C09.chunks.end")
}
