//go:build verif

package app

import "log/slog"

// C15 (admission rule only): consolidateAsset admits an asset exactly when its loop duration is a whole number of
// milliseconds and every representation of the reference content type (and every pre-encrypted one) has that same
// duration in milliseconds; the reference is the first video representation in id order, else the first audio one.
// Arbitrary representation sets of 1..3 members: content type, timescale from a table, duration in ticks and the
// pre-encrypted flag are symbolic. The metadata cache itself (gzip/JSON files) is outside: see DESIGN.md.

func init() {
	vHarnesses["vH_C15_admission"] = vH_C15_admission
}

var vC15Types = [3]string{"video", "audio", "text"}
var vC15Timescales = [5]int{90000, 48000, 30000, 12800, 1000}
var vC15IDs = [3]string{"a1", "b2", "c3"}

func vH_C15_admission() {
	n := vConc(vInt("nReps", 1, 3))
	a := &asset{AssetPath: "x", Reps: map[string]*RepData{}}
	var ct [3]int
	var ts, dur [3]int
	var enc [3]bool
	for i := 0; i < n; i++ {
		ct[i] = vConc(vInt("type"+vC15IDs[i], 0, 2))
		ts[i] = vC15Timescales[vConc(vInt("ts"+vC15IDs[i], 0, 4))]
		dur[i] = vInt("dur"+vC15IDs[i], 1, 1<<40)
		enc[i] = vBool("enc" + vC15IDs[i])
		a.Reps[vC15IDs[i]] = &RepData{ID: vC15IDs[i], ContentType: vC15Types[ct[i]], MediaTimescale: ts[i], PreEncrypted: enc[i],
			Segments: []Segment{{StartTime: 0, EndTime: uint64(dur[i]), Nr: 1}}}
	}
	err := a.consolidateAsset(slog.Default())

	// reference: first video in id order, else first audio
	ref := -1
	for i := 0; i < n && ref < 0; i++ {
		if ct[i] == 0 {
			ref = i
		}
	}
	for i := 0; i < n && ref < 0; i++ {
		if ct[i] == 1 {
			ref = i
		}
	}
	if ref < 0 {
		vAssert("C15.admission.no-video-or-audio-rejected", err != nil)
		vReach("C15.admission.end-noref")
		return
	}
	integral := 1000*dur[ref]%ts[ref] == 0
	loopMS := 1000 * dur[ref] / ts[ref]
	agree := true
	for i := 0; i < n; i++ {
		if ct[i] == ct[ref] || enc[i] {
			if 1000*dur[i]/ts[i] != loopMS {
				agree = false
			}
		}
	}
	if err == nil {
		vAssert("C15.admission.reference", a.refRep == a.Reps[vC15IDs[ref]])
		vAssert("C15.admission.accepted-loop-is-whole-ms", integral)
		vAssert("C15.admission.accepted-loop-duration", a.LoopDurMS == loopMS)
		vAssert("C15.admission.accepted-durations-agree", agree)
	} else {
		vAssert("C15.admission.rejected-only-for-a-reason", !integral || !agree)
	}
	vReach("C15.admission.end")
}
