//go:build verif

package app

// vRunRecover runs f and reports whether it panicked (native side: a crash of the handler becomes a failed
// assertion of the harness instead of killing the replay process).
func vRunRecover(f func()) (crashed bool) {
	defer func() {
		if r := recover(); r != nil {
			crashed = true
		}
	}()
	f()
	return false
}
