//go:build verif

package app

import (
	"log/slog"
	"os"

	m "github.com/Eyevinn/dash-mpd/mpd"
)

// C07 (the part bounded symbolic execution can decide): the MPD generator and the segment generator do not keep
// state between requests. Two requests on the SAME server objects (asset tables, configuration-independent state)
// run as logical threads:
//   - shared-access discipline: no memory that both requests can reach (asset, representation tables, package-level
//     variables) is written without a common lock - a write there would be a data race between concurrent requests and
//     a channel through which one request could influence another;
//   - repeatability: the second of two identical requests returns exactly what the first returned (MPD: type,
//     publishTime, every S list and startNumber; segment: number, decode times, fragment count), and a different
//     request in between does not change that.
// The VoD MPD parser, file reads and mp4 decoding are stubbed by constructors generated from the real parser/decoder
// output (fresh objects per call, as the real ones), so state hidden INSIDE those (and in XML/box serialisation,
// HTTP, the race detector's view of real goroutines) is outside.

func init() {
	vHarnesses["vH_C07_mpd_requests"] = vH_C07_mpd_requests
	vHarnesses["vH_C07_segment_requests"] = vH_C07_segment_requests
}

func vSameMPD(x, y *m.MPD) bool {
	if (x.Type == nil) != (y.Type == nil) || (x.Type != nil && *x.Type != *y.Type) {
		return false
	}
	if vDateTimeMS(x.PublishTime) != vDateTimeMS(y.PublishTime) || len(x.Periods) != len(y.Periods) {
		return false
	}
	for i := range x.Periods {
		px, py := x.Periods[i], y.Periods[i]
		if len(px.AdaptationSets) != len(py.AdaptationSets) {
			return false
		}
		for j := range px.AdaptationSets {
			sx, sy := px.AdaptationSets[j].SegmentTemplate, py.AdaptationSets[j].SegmentTemplate
			if (sx == nil) != (sy == nil) {
				return false
			}
			if sx == nil {
				continue
			}
			if (sx.StartNumber == nil) != (sy.StartNumber == nil) || (sx.StartNumber != nil && *sx.StartNumber != *sy.StartNumber) {
				return false
			}
			if (sx.SegmentTimeline == nil) != (sy.SegmentTimeline == nil) {
				return false
			}
			if sx.SegmentTimeline != nil && !vSameS(sx.SegmentTimeline.S, sy.SegmentTimeline.S) {
				return false
			}
		}
	}
	return true
}

func vH_C07_mpd_requests() {
	a := vAsset_testpic_2s()
	startS := vInt("startS", 0, 1<<31)
	tsbd := vInt("tsbd", 0, 3)
	rel := vInt("rel1", 0, 1<<41)
	rel2 := vInt("rel2", 0, 1<<41)
	mode := vConc(vInt("mode", 1, 2))
	mk := func() *ResponseConfig {
		cfg := vCfg(startS, 0, tsbd)
		if mode == 1 {
			cfg.SegTimelineFlag = true
		} else {
			cfg.SegTimelineNrFlag = true
		}
		return cfg
	}
	c1, c2, c3 := mk(), mk(), mk()
	c2.TimeSubsStpp = []string{"en"} // a different request in between
	vThread(1)
	m1, e1 := LiveMPD(a, "Manifest.mpd", c1, nil, 1000*startS+rel)
	vThread(2)
	_, e2 := LiveMPD(a, "Manifest.mpd", c2, nil, 1000*startS+rel2)
	vThread(3)
	m3, e3 := LiveMPD(a, "Manifest.mpd", c3, nil, 1000*startS+rel)
	vThread(0)
	vAssert("C07.mpd.ok", e1 == nil && e2 == nil && e3 == nil)
	if e1 == nil && e3 == nil {
		vAssert("C07.mpd.same-request-same-response", vSameMPD(m1, m3))
	}
	vReach("C07.mpd.end")
}

func vH_C07_segment_requests() {
	a := vAsset_testpic_2s()
	vPrepareRegexps(a)
	rep := a.Reps["V300"]
	N := len(rep.Segments)
	ts := rep.MediaTimescale
	startNr := vInt("startNr", 0, 1<<20)
	startS := vInt("startS", 0, 1<<31)
	r := vConc(vInt("r", 0, N-1))
	q := vInt("q", 0, 1<<24)
	n := q*N + r
	rel := vInt("rel1", 0, 1<<41)
	now := 1000*startS + rel
	end := vSegEndTicks(a, rep, n)
	vAssume(1000*end <= rel*ts && rel*ts <= 1000*end+60000*ts)
	segID := startNr + n
	segPart := vSegName(rep.MediaURI, segID)
	vStubRep, vStubSegID = rep, segID
	vStubSeg = vSegStruct(a.AssetPath, "V300", r)
	fsys := os.DirFS("testdata/assets")
	c1, c2 := vCfg(startS, startNr, 60), vCfg(startS, startNr, 60)
	c2.SCTE35PerMinute = Ptr(2) // a different request on the same segment in between
	c3 := vCfg(startS, startNr, 60)
	vThread(1)
	s1, e1 := genLiveSegment(slog.Default(), fsys, a, c1, segPart, now, false)
	vThread(2)
	_, e2 := genLiveSegment(slog.Default(), fsys, a, c2, segPart, now, true)
	vThread(3)
	s3, e3 := genLiveSegment(slog.Default(), fsys, a, c3, segPart, now, false)
	vThread(0)
	vAssert("C07.segment.ok", e1 == nil && e2 == nil && e3 == nil)
	if e1 == nil && e3 == nil && s1.seg != nil && s3.seg != nil {
		same := s1.meta.newNr == s3.meta.newNr && s1.meta.newTime == s3.meta.newTime && len(s1.seg.Fragments) == len(s3.seg.Fragments)
		for k := range s1.seg.Fragments {
			if k < len(s3.seg.Fragments) {
				f1, f3 := s1.seg.Fragments[k], s3.seg.Fragments[k]
				if f1.Moof.Mfhd.SequenceNumber != f3.Moof.Mfhd.SequenceNumber || f1.Moof.Traf.Tfdt.BaseMediaDecodeTime() != f3.Moof.Traf.Tfdt.BaseMediaDecodeTime() {
					same = false
				}
				if len(vEmsgsOf(f1)) != len(vEmsgsOf(f3)) {
					same = false
				}
			}
		}
		vAssert("C07.segment.same-request-same-response", same)
	}
	vReach("C07.segment.end")
}
