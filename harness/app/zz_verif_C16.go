//go:build verif

package app

import (
	"context"
	"strconv"
	"strings"
	"sync"
	"time"
)

// C16 — the CMAF-ingest sender emits a complete, ordered stream (the session loop and its numbering).
// The real cmafIngester.start (init phase, live-edge lookup, main select loop, termination) and the real
// sendMediaSegments (per-representation URL/instant selection for $Number$ and SegmentTimeline sessions) run in step
// mode: k step triggers, optionally a session duration, optionally cancellation (DELETE) after the last step.
// Under symbolic execution channels/select/WaitGroup are modelled (single goroutine: a `go sendMediaSegment` runs at
// the spawn point as a recording stub), sendInitSegment / sendMediaSegment record what would be sent and whether the
// segment is available at the instant handed to the segment generator; natively the real session runs in a goroutine
// against a recording HTTP transport and the request log is decoded.
//
// Obligations: every representation gets its init segment first; step i delivers exactly one segment per
// representation, all with number (live edge + 1 + i) counted as the MPD numbers them (startNumber included), each
// generated at an instant at which that segment is available; a session with a duration of d seconds ends by itself
// after d/segmentDuration segments, the last one marked as last; cancellation ends the session.

type vIngRec struct {
	init bool
	rep  string
	nr   int  // media: segment number carried by the segment (mfhd sequence number)
	last bool // media: marked as last segment (lmsg)
}

var vIngLog []vIngRec
var vIngCancelAfter int // symbolic side: close ctx.done after this many media records (-1: never)
var vIngCtx *vCtx
var vIngAtoMS int // availabilityTimeOffset of the session under test (ms)

type vCtx struct{ done chan struct{} }

func (c *vCtx) Deadline() (time.Time, bool) { return time.Time{}, false }
func (c *vCtx) Done() <-chan struct{}        { return c.done }
func (c *vCtx) Err() error {
	select {
	case <-c.done:
		return context.Canceled
	default:
		return nil
	}
}
func (c *vCtx) Value(key any) any { return nil }

func vStubSendInit(c *cmafIngester, ctx context.Context, rd cmafRepData, raw []byte) error {
	vIngLog = append(vIngLog, vIngRec{init: true, rep: rd.repID})
	return nil
}

func vStubSendMedia(c *cmafIngester, ctx context.Context, wg *sync.WaitGroup, segPath, segPart, contentType string, segNr, nowMS int, isLast bool) {
	defer wg.Done()
	// which segment this is (lookup with the availability window switched off) ...
	look := *c.cfg
	look.AvailabilityTimeOffsetS = vInf()
	meta, err := findSegMeta(c.asset, &look, segPart, nowMS)
	if err == nil {
		rep, _, _ := vStubFindRepAndSegmentIDByPrefix(c.asset, segPart) // (for audio the meta is that of the reference track)
		// ... and it is only delivered if it is available at the instant handed to the segment generator (otherwise
		// writeSegment answers 425 and nothing is sent). 1 ms slack: that instant is a float product truncated to
		// milliseconds; the boundary millisecond itself is decided by C04.
		ref := c.asset.refRep
		n := int(meta.newNr) - c.cfg.getStartNr()
		if (nowMS+1-1000*c.cfg.StartTimeS+vIngAtoMS)*ref.MediaTimescale >= 1000*vSegEndTicks(c.asset, ref, n) {
			vIngLog = append(vIngLog, vIngRec{rep: rep.ID, nr: int(meta.newNr), last: isLast})
		}
	}
	if vIngCancelAfter >= 0 {
		n := 0
		for _, r := range vIngLog {
			if !r.init {
				n++
			}
		}
		if n == vIngCancelAfter {
			close(vIngCtx.done)
		}
	}
}

// segment name -> (representation, number/time) without regular expressions (works on structured names)
func vStubFindRepAndSegmentIDByPrefix(a *asset, segmentPart string) (*RepData, int, error) {
	for _, id := range []string{"V300", "A48"} {
		rep := a.Reps[id]
		prefix, _, _ := strings.Cut(rep.MediaURI, "$")
		if strings.HasPrefix(segmentPart, prefix) {
			numStr, _, _ := strings.Cut(segmentPart[len(prefix):], ".")
			n, err := strconv.Atoi(numStr)
			return rep, n, err
		}
	}
	return nil, -1, errNotFound
}

func vStubSetRawInitProps(rawInit []byte, rd cmafRepData, startTimeS int64) ([]byte, error) {
	return nil, nil
}

func vStubNewTimer(d time.Duration) *time.Timer { return &time.Timer{C: make(chan time.Time)} }
func vStubTimerStop(t *time.Timer) bool         { return true }
func vStubTimerReset(t *time.Timer, d time.Duration) bool { return true }

// vStubIngestRun: k step triggers are queued, the session runs in this goroutine.
func vStubIngestRun(c *cmafIngester, k int, cancelAtEnd bool) []vIngRec {
	vIngLog = nil
	c.nextSegTrigger = make(chan struct{}, 8)
	for i := 0; i < k; i++ {
		c.nextSegTrigger <- struct{}{}
	}
	vIngCtx = &vCtx{done: make(chan struct{})}
	vIngCancelAfter = -1
	if cancelAtEnd {
		if k == 0 {
			close(vIngCtx.done)
		} else {
			vIngCancelAfter = k * len(c.repsData)
		}
	}
	c.start(vIngCtx)
	return vIngLog
}

func vStubIngAsset() *asset { return vAsset_testpic_2s() }

func init() {
	vHarnesses["vH_C16_session_number"] = vH_C16_session_number
	vHarnesses["vH_C16_session_timeline"] = vH_C16_session_timeline
	vHarnesses["vH_C16_session_duration"] = vH_C16_session_duration
	vHarnesses["vH_C16_step_timeline"] = vH_C16_step_timeline
	vHarnesses["vH_C16_step_number"] = vH_C16_step_number
}

func vH_C16_session_number()   { vC16Session(0, false, 2) }
func vH_C16_session_timeline() { vC16Session(1, false, 1) }
func vH_C16_session_duration() { vC16Session(0, true, 2) }

// mode: 0 SegmentTemplate $Number$, 1 SegmentTimeline $Time$
func vC16Session(mode int, withDur bool, maxSteps int) {
	a := vIngAsset()
	ref := a.refRep
	ts := ref.MediaTimescale
	startNr := vInt("startNr", 0, 1<<16)
	startS := vInt("startS", 0, 1<<31)
	rel := vInt("rel1", 0, 1<<32)
	now := 1000*startS + rel
	k := vConc(vInt("steps", 0, maxSteps))
	cfg := vCfg(startS, startNr, 60)
	reps := []cmafRepData{
		{repID: "V300", contentType: "video", mimeType: "video/mp4", initPath: "V300/init.mp4", mediaPattern: "V300/$Number$.m4s", extension: ".cmfv"},
		{repID: "A48", contentType: "audio", mimeType: "audio/mp4", initPath: "A48/init.mp4", mediaPattern: "A48/$Number$.m4s", extension: ".cmfa"},
	}
	if mode == 1 {
		cfg.SegTimelineFlag = true
		reps[0].mediaPattern, reps[1].mediaPattern = "V300/$Time$.m4s", "A48/$Time$.m4s"
	}
	c := &cmafIngester{mgr: vIngMgr(a), destRoot: "http://ingest.test", destName: "ch", testNowMS: Ptr(now), cfg: cfg, asset: a, repsData: reps}
	vIngAtoMS = 0
	expectSteps := k
	if withDur {
		durS := 2 * vConc(vInt("durSegs", 1, 2))
		c.dur = Ptr(durS)
		c.nrSegsToSend = Ptr(durS * 1000 / a.SegmentDurMS)
		if *c.nrSegsToSend < expectSteps {
			expectSteps = *c.nrSegsToSend
		}
	}
	// the live edge at `now`: the number of segments that have ended by then
	// (at least one has: the sender is started on a running stream)
	vAssume(rel*ts >= 1000*vSegEndTicks(a, ref, 0))
	recs := vIngestRun(c, k, true)
	vAssert("C16.session.stopped", c.state == ingesterStateStopped)

	// ---- init segments first, one per representation
	vAssert("C16.session.inits-present", len(recs) >= len(reps))
	for i := range reps {
		if i < len(recs) {
			vAssert("C16.session.init-first", recs[i].init && recs[i].rep == reps[i].repID)
		}
	}
	media := recs[min(len(reps), len(recs)):]
	for _, r := range media {
		vAssert("C16.session.no-init-after-media", !r.init)
	}
	// ---- step i: one segment per representation, number = first number after the live edge + i
	vAssert("C16.session.one-segment-per-step-and-representation", len(media) == expectSteps*len(reps))
	for i := 0; i < expectSteps; i++ {
		for j := range reps {
			idx := i*len(reps) + j
			if idx >= len(media) {
				continue
			}
			r := media[idx]
			n := r.nr - startNr // index since availabilityStartTime
			if i == 0 && j == 0 {
				// right after the live edge: segment n-1 has ended at `now`, segment n has not
				vAssert("C16.session.starts-after-live-edge.prev-ended", n >= 1 && 1000*vSegEndTicks(a, ref, n-1) <= rel*ts)
				vAssert("C16.session.starts-after-live-edge.this-not-ended", n >= 0 && 1000*vSegEndTicks(a, ref, n) > rel*ts)
			}
			vAssert("C16.session.representation-order", r.rep == reps[j].repID)
			vAssert("C16.session.consecutive-numbers", r.nr == media[0].nr+i)
			isLast := withDur && i == *c.nrSegsToSend-1
			vAssert("C16.session.last-marked-iff-final-segment-of-duration", r.last == isLast)
		}
	}
	vReach("C16.session.end")
}

func vStubIngMgr(a *asset) *cmafIngesterMgr {
	return &cmafIngesterMgr{s: &Server{Cfg: &ServerConfig{}}}
}

// ---- one step in isolation: sendMediaSegments for segment number nr at the instant that segment becomes available
// (segment end - availabilityTimeOffset, whole and fractional offsets): every representation gets exactly that segment.

func vStubIngestStep(c *cmafIngester, nr, nowMS int) []vIngRec {
	vIngLog = nil
	vIngCtx = &vCtx{done: make(chan struct{})}
	vIngCancelAfter = -1
	err := c.sendMediaSegments(vIngCtx, nr, nowMS, false)
	vAssert("C16.step.no-error", err == nil)
	return vIngLog
}

var vC16AtoTable = [4]int{0, 500, 1000, 1500}

func vH_C16_step_timeline() { vC16Step(1) }
func vH_C16_step_number()   { vC16Step(0) }

func vC16Step(mode int) {
	a := vIngAsset()
	ref := a.refRep
	ts := ref.MediaTimescale
	startNr := vInt("startNr", 0, 1<<16)
	startS := vInt("startS", 0, 1<<31)
	n := vInt("n", 1, 1<<24)
	atoMS := vC16AtoTable[vConc(vInt("atoIdx", 0, len(vC16AtoTable)-1))]
	cfg := vCfg(startS, startNr, 60)
	cfg.AvailabilityTimeOffsetS = float64(atoMS) / 1000.0
	reps := []cmafRepData{
		{repID: "V300", contentType: "video", mimeType: "video/mp4", initPath: "V300/init.mp4", mediaPattern: "V300/$Number$.m4s", extension: ".cmfv"},
		{repID: "A48", contentType: "audio", mimeType: "audio/mp4", initPath: "A48/init.mp4", mediaPattern: "A48/$Number$.m4s", extension: ".cmfa"},
	}
	if mode == 1 {
		cfg.SegTimelineFlag = true
		reps[0].mediaPattern, reps[1].mediaPattern = "V300/$Time$.m4s", "A48/$Time$.m4s"
	}
	c := &cmafIngester{mgr: vIngMgr(a), destRoot: "http://ingest.test", destName: "ch", cfg: cfg, asset: a, repsData: reps}
	vIngAtoMS = atoMS
	endTicks := vSegEndTicks(a, ref, n)
	vAssume(1000*endTicks%ts == 0)
	now := 1000*startS + 1000*endTicks/ts - atoMS // the instant segment n becomes available
	recs := vIngestStep(c, startNr+n, now)
	vAssert("C16.step.one-segment-per-representation", len(recs) == len(reps))
	for j := range reps {
		if j < len(recs) {
			vAssert("C16.step.representation", recs[j].rep == reps[j].repID)
			vAssert("C16.step.sends-the-segment-that-just-became-available", recs[j].nr == startNr+n)
		}
	}
	vReach("C16.step.end")
}
