//go:build verif

package app

import (
	gots "github.com/Comcast/gots/v2/scte35"
	"github.com/Dash-Industry-Forum/livesim2/pkg/scte35"
	"github.com/Eyevinn/mp4ff/mp4"
)

// vParamsOf decodes the splice_info_section carried in the emsg (native side; the gots parser also verifies
// the CRC-32). Under symbolic execution it is replaced by vStubParamsOf (the parameters handed to the stubbed
// payload builder).
func vParamsOf(e *mp4.EmsgBox) (p scte35.SpliceInsertParams, ok bool) {
	// the parser expects the PSI pointer_field in front of the section
	s, err := gots.NewSCTE35(append([]byte{0}, e.MessageData...))
	if err != nil {
		return p, false
	}
	cmd, isInsert := s.CommandInfo().(gots.SpliceInsertCommand)
	if !isInsert {
		return p, false
	}
	p.SpliceEventID = cmd.EventID()
	if cmd.HasPTS() {
		p.PtsTime = uint64(cmd.PTS())
	}
	if cmd.HasDuration() {
		p.Duration = uint64(cmd.Duration())
	}
	p.OutOfNetworkIndicator = cmd.IsOut()
	p.AutoReturn = cmd.IsAutoReturn()
	return p, true
}

// vMkSegmentWithEmsg: a real one-fragment segment (native side) whose fragment carries the emsg.
func vMkSegmentWithEmsg(durs []uint32, e *mp4.EmsgBox) (*mp4.InitSegment, *mp4.MediaSegment) {
	init, seg := vMkSegment(durs)
	seg.Fragments[0].AddEmsg(e)
	return init, seg
}
