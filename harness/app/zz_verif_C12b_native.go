//go:build verif

package app

import (
	"bytes"
	"text/template"

	"github.com/Eyevinn/mp4ff/mp4"
)

// native side: the real text templates of the server (stpp segments are rendered from them)
func vTextTemplates() *template.Template {
	tt, err := compileTextTemplates(content, "templates")
	if err != nil {
		panic("vTextTemplates: " + err.Error())
	}
	return tt
}

// vSubsWritten decodes the written segment: mfhd sequence number, tfdt and the sum of the sample durations.
func vSubsWritten(w *vHW2) (nr, bmdt, dur int) {
	f, err := mp4.DecodeFile(bytes.NewReader(w.data))
	if err != nil {
		panic("vSubsWritten: " + err.Error())
	}
	fr := f.Segments[0].Fragments[0]
	ss, err := fr.GetFullSamples(nil)
	if err != nil {
		panic(err)
	}
	for _, s := range ss {
		dur += int(s.Dur)
	}
	return int(fr.Moof.Mfhd.SequenceNumber), int(fr.Moof.Traf.Tfdt.BaseMediaDecodeTime()), dur
}
