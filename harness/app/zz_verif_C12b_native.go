//go:build verif

package app

import (
	"bytes"
	"regexp"
	"strconv"
	"time"
	"text/template"

	"github.com/Eyevinn/mp4ff/mp4"
)

// native side: the real text templates of the server (stpp segments are rendered from them)
func vTextTemplates() *template.Template {
	tt, err := compileTextTemplates(content, "templates")
	if err != nil {
		panic("vTextTemplates: " + err.Error())
	}
	return tt
}

// vSubsWritten decodes the written segment: mfhd sequence number, tfdt and the sum of the sample durations.
func vSubsWritten(w *vHW2) (nr, bmdt, dur int) {
	f, err := mp4.DecodeFile(bytes.NewReader(w.data))
	if err != nil {
		panic("vSubsWritten: " + err.Error())
	}
	fr := f.Segments[0].Fragments[0]
	ss, err := fr.GetFullSamples(nil)
	if err != nil {
		panic(err)
	}
	for _, s := range ss {
		dur += int(s.Dur)
	}
	return int(fr.Moof.Mfhd.SequenceNumber), int(fr.Moof.Traf.Tfdt.BaseMediaDecodeTime()), dur
}

// vStppCuesOf parses the rendered TTML of a generated stpp segment (native side).
func vStppCuesOf(seg *mp4.MediaSegment) (cues []vStppCue, region int) {
	ss, err := seg.Fragments[0].GetFullSamples(nil)
	if err != nil || len(ss) != 1 {
		panic("vStppCuesOf: cannot read the sample")
	}
	doc := string(ss[0].Data)
	rm := regexp.MustCompile(`<div region="r(\d+)">`).FindStringSubmatch(doc)
	if rm == nil {
		panic("vStppCuesOf: no region")
	}
	region, _ = strconv.Atoi(rm[1])
	re := regexp.MustCompile(`<p xml:id="(\d+)-(\d+)" begin="(\d+):(\d+):(\d+)\.(\d+)" end="(\d+):(\d+):(\d+)\.(\d+)"><span style="s1">([^<]*)<br/>`)
	for _, m := range re.FindAllStringSubmatch(doc, -1) {
		at := func(i int) int { v, _ := strconv.Atoi(m[i]); return v }
		t, err := time.Parse(time.RFC3339, m[11])
		if err != nil {
			panic("vStppCuesOf: message time " + m[11])
		}
		cues = append(cues, vStppCue{idNr: at(1), idIdx: at(2), beginMS: ((at(3)*60+at(4))*60+at(5))*1000 + at(6),
			endMS: ((at(7)*60+at(8))*60+at(9))*1000 + at(10), utcMS: int(t.UnixMilli())})
	}
	return cues, region
}

func vSegSampleTiming(seg *mp4.MediaSegment) (n, decodeTime, dur int) {
	ss, err := seg.Fragments[0].GetFullSamples(nil)
	if err != nil {
		panic(err)
	}
	return len(ss), int(ss[0].DecodeTime), int(ss[0].Dur)
}
