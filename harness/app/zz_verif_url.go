//go:build verif

package app

// URL glue — the real URL configuration parser (processURLCfg + verifyAndFillConfig) and the request entry
// (cfgFromRequest, livesimHandlerFunc) run on request URLs whose numbers are symbolic (structured strings).

func init() {
	vHarnesses["vH_URL_cfg_basic"] = vH_URL_cfg_basic
}

func vH_URL_cfg_basic() {
	startS := vInt("startS", 0, 1<<32)
	startNr := vInt("startNr", -5, 1<<33)
	tsbd := vInt("tsbd", -5, 200000)
	segID := vInt("segID", 0, 1<<40)
	nowMS := vInt("nowMS", 0, 1<<42)
	u := vStrf("/livesim2/start_%d/snr_%d/tsbd_%d/testpic_2s/V300/%d.m4s", startS, startNr, tsbd, segID)
	cfg, err := processURLCfg(u, nowMS)
	accepted := startNr >= 0 && startNr <= 1<<32-1 && tsbd >= 0 && tsbd <= MAX_TIME_SHIFT_BUFFER_DEPTH_S
	vAssert("URL.cfg.accept-iff-valid", (err == nil) == accepted)
	if err != nil {
		return
	}
	vAssert("URL.cfg.start", cfg.StartTimeS == startS)
	vAssert("URL.cfg.snr", *cfg.StartNr == startNr)
	vAssert("URL.cfg.tsbd", *cfg.TimeShiftBufferDepthS == tsbd)
	vAssert("URL.cfg.content", cfg.URLContentPart() == vStrf("testpic_2s/V300/%d.m4s", segID))
	vReach("URL.cfg.end")
}
