//go:build verif

package app

import (
	m "github.com/Eyevinn/dash-mpd/mpd"
)

// C02 — the live MPD (SegmentTimeline) and the segment server agree on what is available.
// C05 — the MPD only moves forward and publishTime identifies its content (see zz_verif_C05.go).

func init() {
	vHarnesses["vH_C02_time_testpic2s_V300_ato0"] = vH_C02_time_testpic2s_V300_ato0
	vHarnesses["vH_C02_nr_testpic2s_V300_ato0"] = vH_C02_nr_testpic2s_V300_ato0
	vHarnesses["vH_C02_time_testpic2s_V300_atoFrac"] = vH_C02_time_testpic2s_V300_atoFrac
	vHarnesses["vH_C02_time_alt_V300_ato0"] = vH_C02_time_alt_V300_ato0
	vHarnesses["vH_C02_time_wave2997_ato0"] = vH_C02_time_wave2997_ato0
	vHarnesses["vH_C02_time_wave25_atoFrac"] = vH_C02_time_wave25_atoFrac
	vHarnesses["vH_C02_time_syn_irregular3_ato0"] = vH_C02_time_syn_irregular3_ato0
	vHarnesses["vH_C02_time_syn_subsecond_ato0"] = vH_C02_time_syn_subsecond_ato0
	vHarnesses["vH_C02_time_testpic8s_ato0"] = vH_C02_time_testpic8s_ato0
}

func vH_C02_time_testpic2s_V300_ato0()    { vC02(vAsset_testpic_2s(), "V300", 1, 0, 5) }
func vH_C02_nr_testpic2s_V300_ato0()      { vC02(vAsset_testpic_2s(), "V300", 2, 0, 5) }
func vH_C02_time_testpic2s_V300_atoFrac() { vC02(vAsset_testpic_2s(), "V300", 1, 2, 5) }
func vH_C02_time_alt_V300_ato0()          { vC02(vAsset_testpic_alt_seg_dur_stl(), "V300", 1, 0, 13) }
func vH_C02_time_wave2997_ato0() {
	vC02(vAsset_WAVE_vectors_cfhd_sets_14_985_29_97_59_94_t1_2022_10_17(), "1", 1, 0, 5)
}
func vH_C02_time_wave25_atoFrac() {
	vC02(vAsset_WAVE_vectors_cfhd_sets_12_5_25_50_t3_2022_10_17(), "1", 1, 2, 5)
}
func vH_C02_time_syn_irregular3_ato0() { vC02(vAsset_syn_irregular3(), "V1", 1, 0, 5) }
func vH_C02_time_syn_subsecond_ato0()  { vC02(vAsset_syn_subsecond(), "V1", 1, 0, 1) }
func vH_C02_time_testpic8s_ato0()      { vC02(vAsset_testpic_8s(), "V300", 1, 0, 17) }

type vEntry struct {
	t, d uint64
	idx  int // segment index counted from availabilityStartTime (MPD number for SegmentTimeline-Number)
}

// vExpand lists the segments an S-element list declares.
func vExpand(se segEntries) []vEntry {
	out := make([]vEntry, 0, 16)
	t := uint64(0)
	idx := se.startNr
	for _, s := range se.entries {
		if s.T != nil {
			t = *s.T
		}
		for j := 0; j <= s.R; j++ {
			out = append(out, vEntry{t: t, d: s.D, idx: idx})
			t += s.D
			idx++
		}
	}
	return out
}

// mode: 1 = SegmentTimeline $Time$, 2 = SegmentTimeline $Number$. atoMode: 0 = none, 2 = fractional.
// maxTsbd bounds the time-shift window (and with it the number of listed segments).
func vC02(a *asset, repID string, mode, atoMode, maxTsbd int) {
	rep := a.Reps[repID]
	ts := rep.MediaTimescale
	startNr := vInt("startNr", 0, 1<<20)
	startS := vInt("startS", 0, 1<<32-1)
	tsbd := vInt("tsbd", 0, maxTsbd)
	now := vInt("now1", 0, 1<<42)
	vAssume(now >= 1000*startS) // the handler answers 425 before availabilityStartTime
	cfg := vCfg(startS, startNr, tsbd)
	atoMS := 0
	if atoMode == 2 {
		atoMS = vInt("atoMS", 1, a.SegmentDurMS-1)
		cfg.AvailabilityTimeOffsetS = float64(atoMS) / 1000.0
	}
	if mode == 1 {
		cfg.SegTimelineFlag = true
	} else {
		cfg.SegTimelineNrFlag = true
	}
	wt := calcWrapTimes(a, cfg, now, *m.Seconds2DurPtr(tsbd))
	se := a.generateTimelineEntries(repID, wt, atoMS)
	relMS := now - 1000*startS

	if se.startNr < 0 {
		// nothing listed: then nothing has become available yet
		slack := 0
		if atoMode == 2 {
			slack = ts // 1 ms, see DESIGN 3.3
		}
		vAssert("C02.empty-only-before-first-segment", (relMS+atoMS)*ts < 1000*int(rep.Segments[0].EndTime)+slack)
		vAssert("C02.empty-no-entries", len(se.entries) == 0)
		vReach("C02.end-empty")
		return
	}
	list := vExpand(se)
	vAssert("C02.nonempty", len(list) >= 1)
	for k := range list {
		e := list[k]
		// (c) the list is the contiguous run of looped segments
		vAssert("C02.entry-start", int(e.t) == vSegStartTicks(a, rep, e.idx))
		vAssert("C02.entry-dur", int(e.t+e.d) == vSegEndTicks(a, rep, e.idx))
		// (a) every listed segment is served at the same instant with the declared time, duration and number
		var sm segMeta
		var err error
		if mode == 1 {
			sm, err = findSegMetaFromTime(a, rep, e.t, cfg, now)
		} else {
			// SegmentTimeline-$Number$: the MPD declares startNumber = number of the first entry
			sm, err = findSegMetaFromNr(a, rep, uint32(vDeclaredNumber(cfg, se, k)), cfg, now)
		}
		// with a fractional offset the server's float comparison may differ from the MPD's tick arithmetic by < 1 ms
		// exactly at the availability instant of the newest segment: assert only when that segment is clearly available
		if atoMode == 0 || 1000*vSegEndTicks(a, rep, e.idx)+ts <= (relMS+atoMS)*ts {
			vAssert("C02.listed-is-served", err == nil)
		}
		if err == nil {
			vAssert("C02.served-time", sm.newTime == e.t)
			vAssert("C02.served-dur", uint64(sm.newDur) == e.d)
		}
	}
	first, last := list[0], list[len(list)-1]
	// (b) the segment after the live edge is refused as too early
	var errNext error
	if mode == 1 {
		_, errNext = findSegMetaFromTime(a, rep, last.t+last.d, cfg, now)
	} else {
		_, errNext = findSegMetaFromNr(a, rep, uint32(vDeclaredNumber(cfg, se, len(list))), cfg, now)
	}
	if atoMode == 0 || 1000*vSegEndTicks(a, rep, last.idx+1) >= (relMS+atoMS)*ts+ts {
		vAssert("C02.next-is-too-early", vPhase(errNext) == 0)
	}
	// (d) last entry is the newest segment with AST + end - ato <= now
	avail := (relMS + atoMS) * ts
	if atoMode == 0 {
		vAssert("C02.last-has-ended", 1000*vSegEndTicks(a, rep, last.idx) <= avail)
		vAssert("C02.last-is-newest", 1000*vSegEndTicks(a, rep, last.idx+1) > avail)
	} else {
		vAssert("C02.last-has-ended(1ms)", 1000*vSegEndTicks(a, rep, last.idx) <= avail+ts)
		vAssert("C02.last-is-newest(1ms)", 1000*vSegEndTicks(a, rep, last.idx+1)+ts > avail)
	}
	// first entry is not older than the time-shift window allows: the segment after it ends inside the window
	winMS := relMS - 1000*tsbd
	if winMS < 0 {
		winMS = 0
	}
	vAssert("C02.first-not-too-old", 1000*vSegEndTicks(a, rep, first.idx+1)+ts > (winMS+atoMS)*ts)
	vAssert("C02.first-index-nonneg", first.idx >= 0)
	vReach("C02.end")
}

// vDeclaredNumber is the $Number$ the MPD declares for the k-th listed segment of a
// SegmentTimeline-$Number$ AdaptationSet: SegmentTemplate@startNumber + k, with startNumber as
// written by adjustAdaptationSetForTimelineNr.
func vDeclaredNumber(cfg *ResponseConfig, se segEntries, k int) int {
	as := &m.AdaptationSetType{}
	as.SegmentTemplate = &m.SegmentTemplateType{}
	_ = adjustAdaptationSetForTimelineNr(se, as, cfg.getStartNr())
	sn := 1
	if as.SegmentTemplate.StartNumber != nil {
		sn = int(*as.SegmentTemplate.StartNumber)
	}
	return sn + k
}

// ---- audio: the MPD's audio timeline entries are resolved by the server to the right reference segment ----

func init() {
	vHarnesses["vH_C02_audio_testpic2s"] = vH_C02_audio_testpic2s
	vHarnesses["vH_C02_audio_bbb_ac3"] = vH_C02_audio_bbb_ac3
	vHarnesses["vH_C02_text_testpic2s"] = vH_C02_text_testpic2s
	vHarnesses["vH_C02_number_testpic2s_V300"] = vH_C02_number_testpic2s_V300
	vHarnesses["vH_C02_number_testpic2s_thumbs"] = vH_C02_number_testpic2s_thumbs
	vHarnesses["vH_C02_number_testpic2s_A48"] = vH_C02_number_testpic2s_A48
	vHarnesses["vH_C02_number_wave2997"] = vH_C02_number_wave2997
}

func vH_C02_audio_testpic2s() { vC02Audio(vAsset_testpic_2s(), "V300", "A48", 5) }
func vH_C02_audio_bbb_ac3()   { vC02Audio(vAsset_bbb_hevc_ac3_8s(), "1", "2", 5) }
func vH_C02_text_testpic2s()  { vC02(vAsset_testpic_2s(), "imsc1_txt_sv", 1, 0, 5) }

func vC02Audio(a *asset, videoID, audioID string, maxTsbd int) {
	rep := a.Reps[audioID]
	ref := a.refRep
	startNr := vInt("startNr", 0, 1<<20)
	startS := vInt("startS", 0, 1<<32-1)
	tsbd := vInt("tsbd", 0, maxTsbd)
	rel := vInt("rel1", 0, 1<<41)
	now := 1000*startS + rel
	cfg := vCfg(startS, startNr, tsbd)
	cfg.SegTimelineFlag = true
	refSE := a.generateTimelineEntries(videoID, calcWrapTimes(a, cfg, now, *m.Seconds2DurPtr(tsbd)), 0)
	se := a.generateTimelineEntriesFromRef(refSE, audioID)
	if refSE.startNr < 0 {
		vReach("C02.audio.end-empty")
		return
	}
	list := vExpand(se)
	for k := range list {
		e := list[k]
		// the request the MPD implies: audio $Time$ = e.t, at the same instant
		refMeta, err := findRefSegMetaFromTime(a, rep, e.t, cfg, now)
		vAssert("C02.audio.listed-is-served", err == nil)
		if err != nil {
			continue
		}
		vAssert("C02.audio.resolves-to-reference-segment", int(refMeta.newNr) == startNr+e.idx)
		rec := calcAudioSegRecipe(refMeta.newNr, refMeta.newTime, refMeta.newTime+uint64(refMeta.newDur),
			uint64(ref.duration()), uint64(ref.MediaTimescale), rep)
		vAssert("C02.audio.served-time", rec.startTime == e.t)
		vAssert("C02.audio.served-dur", rec.endTime-rec.startTime == e.d)
	}
	last := list[len(list)-1]
	_, errNext := findRefSegMetaFromTime(a, rep, last.t+last.d, cfg, now)
	vAssert("C02.audio.next-is-too-early", vPhase(errNext) == 0)
	vReach("C02.audio.end")
}

// ---- $Number$ templates: what the template implies as available is served ----

func vH_C02_number_testpic2s_V300()   { vC02Number(vAsset_testpic_2s(), "V300", "video") }
func vH_C02_number_testpic2s_thumbs() { vC02Number(vAsset_testpic_2s(), "thumbs", "image") }
func vH_C02_number_testpic2s_A48()    { vC02Number(vAsset_testpic_2s(), "A48", "audio") }
func vH_C02_number_wave2997() {
	vC02Number(vAsset_WAVE_vectors_cfhd_sets_14_985_29_97_59_94_t1_2022_10_17(), "1", "video")
}

// vC02Number: with SegmentTemplate@duration/@timescale/@startNumber as written by the real
// adjustAdaptationSetForSegmentNumber, segment number k is implied available from
// AST + (k-startNumber+1)*duration/timescale until that instant + timeShiftBufferDepth; inside that window the
// server serves it (constant-duration tables, so the implied instants are the real ones).
func vC02Number(a *asset, repID, contentType string) {
	rep := a.Reps[repID]
	timing := rep
	if contentType == "audio" {
		timing = a.refRep
	}
	startNr := vInt("startNr", 0, 1<<20)
	startS := vInt("startS", 0, 1<<32-1)
	tsbd := vInt("tsbd", 0, 172800)
	rel := vInt("rel1", 0, 1<<41)
	idx := vInt("n", 0, 1<<26)
	now := 1000*startS + rel
	cfg := vCfg(startS, startNr, tsbd)
	as := &m.AdaptationSetType{}
	as.ContentType = m.RFC6838ContentTypeType(contentType)
	as.SegmentTemplate = &m.SegmentTemplateType{}
	as.Representations = []*m.RepresentationType{{Id: repID}}
	err := adjustAdaptationSetForSegmentNumber(cfg, a, as)
	vAssert("C02.number.adjust-ok", err == nil)
	st := as.SegmentTemplate
	vAssert("C02.number.startNumber", st.StartNumber != nil && int(*st.StartNumber) == startNr)
	D, ts := int(*st.Duration), int(*st.Timescale)
	// implied availability window of number startNr+idx (relative to AST, cross-multiplied to avoid rounding)
	availTicks := (idx + 1) * D
	if rel*ts >= 1000*availTicks && rel*ts <= 1000*availTicks+1000*tsbd*ts {
		var e error
		if contentType == "audio" {
			_, e = findSegMetaFromNr(a, timing, uint32(startNr+idx), cfg, now) // audio is served through the reference track
		} else {
			_, e = findSegMetaFromNr(a, rep, uint32(startNr+idx), cfg, now)
		}
		vAssert("C02.number.implied-available-is-served", e == nil)
	}
	if rel*ts < 1000*availTicks {
		var e error
		if contentType == "audio" {
			_, e = findSegMetaFromNr(a, timing, uint32(startNr+idx), cfg, now)
		} else {
			_, e = findSegMetaFromNr(a, rep, uint32(startNr+idx), cfg, now)
		}
		vAssert("C02.number.not-yet-implied-is-too-early", vPhase(e) == 0)
	}
	vReach("C02.number.end")
}
