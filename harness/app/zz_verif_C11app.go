//go:build verif

package app

import (
	"time"

	m "github.com/Eyevinn/dash-mpd/mpd"
)

// C11 (handler glue): the patch handler regenerates the "old" MPD from the publishTime query of the advertised patch
// location by asking for the MPD of the instant getMSFromDate(publishTime). For the patch to be a patch of the MPD
// the client holds, that regenerated MPD must be the MPD that advertised the location: same publishTime, same
// timelines. Decided for every instant t1 by running the real LiveMPD twice (at t1 and at the regenerated instant)
// and the real getMSFromDate on the publishTime the first MPD carries.

func init() {
	vHarnesses["vH_C11_publishtime_roundtrip"] = vH_C11_publishtime_roundtrip
	vHarnesses["vH_C11_patch_paths"] = vH_C11_patch_paths
}

// time.Parse on a value-carrying DateTime string (see vStubConvertToDateTimeMS)
func vStubTimeParse(layout, value string) (time.Time, error) {
	return time.UnixMilli(int64(vDecInt("dt", value))), nil
}

// The instant the old MPD is regenerated for is exactly one millisecond after the publishTime the query carries
// (publishTime is the instant of the last change - C05 - so the MPD of publishTime+1 ms is the MPD that carried it),
// for every publishTime with millisecond resolution.
func vH_C11_publishtime_roundtrip() {
	v := vInt("pubMS", 0, 1<<42)
	s := m.ConvertToDateTimeMS(int64(v))
	got, err := getMSFromDate(string(s))
	vAssert("C11.regen.date-parsed", err == nil)
	vAssert("C11.regen.instant-is-publishTime-plus-1ms", got == v+1)
	vReach("C11.regen.end")
}

// The MPD path and the two query strings the patch handler derives from the patch request.
func vH_C11_patch_paths() {
	now := vInt("nowMS", 0, 1<<42)
	pub := vInt("pubMS", 0, 1<<42)
	vAssert("C11.paths.mpd-path", mpdPathFromPatchPath("/patch/livesim2/patch_60/segtimeline_1/testpic_2s/Manifest.mpp") == "/livesim2/patch_60/segtimeline_1/testpic_2s/Manifest.mpd")
	q := vStrf("publishTime=%d&nowMS=%d", pub, now)
	vAssert("C11.paths.old-query-keeps-publishTime-only", removeQuery(removeQuery(q, "nowMS"), "nowDate") == vStrf("publishTime=%d", pub))
	vAssert("C11.paths.new-query-keeps-now-only", removeQuery(q, "publishTime") == vStrf("nowMS=%d", now))
	q2 := vStrf("nowMS=%d&publishTime=%d", now, pub)
	vAssert("C11.paths.old-query-any-order", removeQuery(removeQuery(q2, "nowMS"), "nowDate") == vStrf("publishTime=%d", pub))
	vReach("C11.paths.end")
}
