//go:build verif

package app

import (
	"bytes"
	"strconv"
	"strings"
	"time"

	"github.com/Eyevinn/mp4ff/mp4"
)

// vWvttCueInfo decodes a real vttc cue payload (native side): the UTC instant and segment number named by the cue
// text "<RFC3339 time>\n<lang> # <nr>" and the region (1 = an sttg settings box is present).
func vWvttCueInfo(data []byte) (utcMS, segNr, region int) {
	box, err := mp4.DecodeBox(0, bytes.NewReader(data))
	if err != nil {
		panic("vWvttCueInfo: " + err.Error())
	}
	vttc, ok := box.(*mp4.VttcBox)
	if !ok {
		panic("vWvttCueInfo: not a vttc box")
	}
	for _, c := range vttc.Children {
		switch b := c.(type) {
		case *mp4.SttgBox:
			region = 1
		case *mp4.PaylBox:
			lines := strings.Split(b.CueText, "\n")
			t, err := time.Parse(time.RFC3339, lines[0])
			if err != nil {
				panic("vWvttCueInfo: time " + lines[0])
			}
			utcMS = int(t.UnixMilli())
			i := strings.LastIndex(lines[1], "# ")
			segNr, _ = strconv.Atoi(lines[1][i+2:])
		}
	}
	return utcMS, segNr, region
}
