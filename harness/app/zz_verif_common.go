//go:build verif

package app

import (
	"errors"
	"github.com/Eyevinn/mp4ff/mp4"

	m "github.com/Eyevinn/dash-mpd/mpd"
)

// vPhase maps the result of a segment lookup to the life-cycle phase of C04:
// 0 = too early (425), 1 = available (200), 2 = gone (410), 3 = not found (404), 4 = other error.
func vPhase(err error) int {
	if err == nil {
		return 1
	}
	var tooEarly errTooEarly
	if errors.As(err, &tooEarly) {
		return 0
	}
	if errors.Is(err, errGone) {
		return 2
	}
	if errors.Is(err, errNotFound) {
		return 3
	}
	return 4
}

func vDeltaMS(err error) int {
	var tooEarly errTooEarly
	if errors.As(err, &tooEarly) {
		return tooEarly.deltaMS
	}
	return 0
}

// vCfg builds a ResponseConfig as the URL parser would for start_X/snr_Y/tsbd_Z (+ato).
func vCfg(startS, startNr, tsbd int) *ResponseConfig {
	c := NewResponseConfig()
	c.StartTimeS = startS
	c.StartNr = Ptr(startNr)
	c.TimeShiftBufferDepthS = Ptr(tsbd)
	return c
}

// vSegEndTicks is the oracle for the exact end (in media ticks, relative to availabilityStartTime)
// of looped segment index n (0-based from availabilityStartTime) of rep: floor(n/N)*loopDur + VoD end of n mod N.
func vSegEndTicks(a *asset, rep *RepData, n int) int {
	N := len(rep.Segments)
	q := n / N
	r := n % N
	loopTicks := a.LoopDurMS * rep.MediaTimescale / 1000
	return q*loopTicks + int(rep.Segments[r].EndTime)
}

func vSegStartTicks(a *asset, rep *RepData, n int) int {
	N := len(rep.Segments)
	q := n / N
	r := n % N
	loopTicks := a.LoopDurMS * rep.MediaTimescale / 1000
	return q*loopTicks + int(rep.Segments[r].StartTime)
}

// ---- request-path plumbing shared by harnesses that go through findSegMeta / createOutSeg ----

var vStubRep *RepData
var vStubSegID int

// vStubFindRepAndSegmentID replaces findRepAndSegmentID (regular expressions) under symbolic execution:
// it returns what the harness set up. Natively the real function runs on the real segment name.
func vStubFindRepAndSegmentID(a *asset, segmentPart string) (*RepData, int, error) {
	return vStubRep, vStubSegID, nil
}

// vSegAudioStart is the oracle for C03/C04: the first audio frame boundary at or after refTicks
// (reference timescale), in audio ticks.
func vAudioTimeOracle(refTicks, refTs, frameDur, audioTs int) int {
	num := refTicks * audioTs
	den := refTs * frameDur
	q := (num + den - 1) / den
	return q * frameDur
}

// ---- publishTime formatting: ConvertToDateTimeMS (time formatting) is stubbed under symbolic execution ----

// A DateTime produced under symbolic execution is an opaque string that carries its Unix-millisecond value.
func vStubConvertToDateTimeMS(ms int64) m.DateTime { return m.DateTime(vEncInt("dt", int(ms))) }

// mirrors mpd.ConvertToDateTime: whole seconds plus the fraction, formatted with millisecond precision (truncated)
func vStubConvertToDateTime(seconds float64) m.DateTime {
	s := int64(seconds)
	ns := int64((seconds - float64(s)) * 1_000_000_000)
	return m.DateTime(vEncInt("dt", int(s*1000+ns/1_000_000)))
}

func vStubDateTimeMS(dt m.DateTime) int { return vDecInt("dt", string(dt)) }

// mirrors (mpd.DateTime).ConvertToSeconds
func vStubDateTimeToSeconds(dt m.DateTime) (float64, error) {
	return float64(int64(vDecInt("dt", string(dt)))*1_000_000) / 1_000_000_000, nil
}

// vPubMS is the publishTime (Unix ms) the MPD carries for a publish time in seconds, as written by the real code.
func vPubMS(sec float64) int {
	return vDateTimeMS(publishTimeToDateTime(sec))
}

// vStubLoadInit: the init-segment skeleton the code dereferences (under symbolic execution; natively vLoadInit reads the real init segment)
func vStubLoadInit(rep *RepData) {
	rep.initSeg = &mp4.InitSegment{Moov: &mp4.MoovBox{Mvex: &mp4.MvexBox{Trex: &mp4.TrexBox{}}, Trak: &mp4.TrakBox{Tkhd: &mp4.TkhdBox{TrackID: 1}}}}
}
