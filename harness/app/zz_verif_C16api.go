//go:build verif

package app

import (
	"context"
	"errors"
	"log/slog"
	"time"

	"github.com/danielgtaylor/huma/v2"
)

// C16 (REST control): the step and delete handlers of the ingest API for a session in ANY state (not started, running,
// stopped): DELETE of an existing session always cancels it ("deleting the session stops it" - also while it is still
// sending init segments), a step hands exactly one trigger to that session, unknown ids give 404 and non-numeric
// ids 400 without touching any session.

func init() {
	vHarnesses["vH_C16_api_delete_step"] = vH_C16_api_delete_step
}

type vStatusErr struct {
	status int
	msg    string
}

func (e *vStatusErr) Error() string  { return e.msg }
func (e *vStatusErr) GetStatus() int { return e.status }

func vStubHuma404(msg string, errs ...error) huma.StatusError {
	return &vStatusErr{status: 404, msg: msg}
}
func vStubHuma400(msg string, errs ...error) huma.StatusError {
	return &vStatusErr{status: 400, msg: msg}
}

func vStatusOf(err error) int {
	var se huma.StatusError
	if errors.As(err, &se) {
		return se.GetStatus()
	}
	return 0
}

func vStubStatusOf(err error) int {
	if e, ok := err.(*vStatusErr); ok {
		return e.status
	}
	return 0
}

func vH_C16_api_delete_step() {
	s := &Server{Cfg: &ServerConfig{}}
	s.cmafMgr = NewCmafIngesterMgr(s)
	id := vConc(vInt("id", 1, 3))
	state := vConc(vInt("state", 0, 2))
	cancelCalls := 0
	ci := &cmafIngester{mgr: s.cmafMgr, state: ingesterState(state), nextSegTrigger: make(chan struct{}, 4)}
	s.cmafMgr.ingesters[uint64(id)] = ci
	s.cmafMgr.cancels[uint64(id)] = func() { cancelCalls++ }
	del := createDeleteCmafIngesterHdlr(s)
	step := createStepCmafIngesterHdlr(s)
	ctx := context.Background()

	// step: one trigger for this session
	_, err := step(ctx, &idInput{Id: vStrf("%d", id)})
	vAssert("C16.api.step-ok", err == nil)
	vAssert("C16.api.step-gives-one-trigger", len(ci.nextSegTrigger) == 1)

	// unknown and malformed ids
	other := vInt("other", 0, 1<<20)
	vAssume(other != id)
	_, err = del(ctx, &idInput{Id: vStrf("%d", other)})
	vAssert("C16.api.delete-unknown-404", err != nil && vStatusOf(err) == 404)
	_, err = step(ctx, &idInput{Id: vStrf("%d", other)})
	vAssert("C16.api.step-unknown-404", err != nil && vStatusOf(err) == 404)
	_, err = del(ctx, &idInput{Id: "abc"})
	vAssert("C16.api.delete-malformed-400", err != nil && vStatusOf(err) == 400)
	vAssert("C16.api.other-ids-touch-nothing", cancelCalls == 0 && len(ci.nextSegTrigger) == 1)

	// delete: the session is cancelled whatever state it is in
	_, err = del(ctx, &idInput{Id: vStrf("%d", id)})
	vAssert("C16.api.delete-ok", err == nil)
	vAssert("C16.api.delete-cancels-the-session", cancelCalls >= 1)
	vReach("C16.api.end")
}

// A step is handed to the session loop through the unbuffered trigger channel: triggerNextSegment returns only after
// the loop has taken the step (every step delivers). With nobody receiving, the real send blocks (that path simply
// ends in the single-goroutine model); returning anyway - e.g. after a timeout, modelled by a time.After channel that
// is ready at once - means the step was dropped.
func init() {
	vHarnesses["vH_C16_step_is_never_dropped"] = vH_C16_step_is_never_dropped
}

func vStubTimeAfterReady(d time.Duration) <-chan time.Time {
	ch := make(chan time.Time, 1)
	ch <- time.Time{}
	return ch
}

func vH_C16_step_is_never_dropped() {
	taken := vBool("loopTakesTheStep")
	capN := 0
	if taken {
		capN = 1 // a loop waiting at its select takes the step at once: modelled by room for one trigger
	}
	c := &cmafIngester{nextSegTrigger: make(chan struct{}, capN), log: slog.Default()}
	c.triggerNextSegment()
	// reaching this point means triggerNextSegment returned
	vAssert("C16.stepapi.returns-only-after-the-step-was-taken", taken && len(c.nextSegTrigger) == 1)
	vReach("C16.stepapi.end")
}
