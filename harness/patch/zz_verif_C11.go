//go:build verif

package patch

import (
	"fmt"

	"github.com/beevik/etree"
)

// C11 (diff kernel) — applying the edit script of MyersDiff to the old list yields the new list.
// Elements are abstracted to equivalence classes (symbolic atoms in Tag); all length pairs up to the bound.

func init() {
	vHarnesses["vH_C11_myers_3_3"] = vH_C11_myers_3_3
	vHarnesses["vH_C11_myers_4_4"] = vH_C11_myers_4_4
}

func init() {
	vHarnesses["vH_C11_myers_1_8"] = vH_C11_myers_1_8
	vHarnesses["vH_C11_myers_8_1"] = vH_C11_myers_8_1
	vHarnesses["vH_C11_myers_2_6"] = vH_C11_myers_2_6
	vHarnesses["vH_C11_myers_6_2"] = vH_C11_myers_6_2
}

// very different lengths (a growing or shrinking timeline next to a short one)
func vH_C11_myers_1_8() { vC11Myers(1, 8) }
func vH_C11_myers_8_1() { vC11Myers(8, 1) }
func vH_C11_myers_2_6() { vC11Myers(2, 6) }
func vH_C11_myers_6_2() { vC11Myers(6, 2) }

func vH_C11_myers_3_3() { vC11Myers(3, 3) }
func vH_C11_myers_4_4() { vC11Myers(4, 4) }

func vMkList(prefix string, n, classes int) []*etree.Element {
	l := make([]*etree.Element, n)
	for i := range l {
		l[i] = &etree.Element{Tag: vAtom(fmt.Sprintf("%s%d", prefix, i), classes)}
	}
	return l
}

func vC11Myers(maxN, maxM int) {
	N := vConc(vInt("N", 0, maxN))
	M := vConc(vInt("M", 0, maxM))
	classes := 3
	if maxN > 3 && maxM > 3 {
		classes = 4
	}
	if maxN+maxM > 8 {
		classes = 2
	}
	e := vMkList("e", N, classes)
	f := vMkList("f", M, classes)
	eq := func(a, b *etree.Element) bool { return a.Tag == b.Tag }
	ops := MyersDiff(e, f, eq)

	deleted := make([]bool, N)
	for _, op := range ops {
		switch op.OpType {
		case OpDelete:
			vAssert("C11.myers.delete-pos-in-range", op.OldPos >= 0 && op.OldPos < N)
			if op.OldPos >= 0 && op.OldPos < N {
				vAssert("C11.myers.delete-elem", op.Elem == e[op.OldPos])
				vAssert("C11.myers.delete-once", !deleted[op.OldPos])
				deleted[op.OldPos] = true
			}
		case OpInsert:
			vAssert("C11.myers.insert-oldpos-in-range", op.OldPos >= 0 && op.OldPos <= N)
			vAssert("C11.myers.insert-newpos-in-range", op.NewPos >= 0 && op.NewPos < M)
			if op.NewPos >= 0 && op.NewPos < M {
				vAssert("C11.myers.insert-elem", op.Elem == f[op.NewPos])
			}
		default:
			vAssert("C11.myers.known-op", false)
		}
	}
	// apply: walk the old list; before old position p come the inserts addressed to p (in script order),
	// then the old element unless deleted
	res := make([]*etree.Element, 0, N+M)
	for p := 0; p <= N; p++ {
		for _, op := range ops {
			if op.OpType == OpInsert && op.OldPos == p {
				res = append(res, op.Elem)
			}
		}
		if p < N && !deleted[p] {
			res = append(res, e[p])
		}
	}
	vAssert("C11.myers.result-length", len(res) == M)
	same := len(res) == M
	for i := 0; i < len(res) && i < M; i++ {
		if !eq(res[i], f[i]) {
			same = false
		}
	}
	vAssert("C11.myers.apply-gives-new-list", same)
	// minimality is not claimed; but the script never touches more than all elements
	vAssert("C11.myers.script-bounded", len(ops) <= N+M)
	vReach("C11.myers.end")
}

// ---- addLeafListChanges: sequential application of the generated remove/add operations ----

func init() {
	vHarnesses["vH_C11_leaflist_3_3"] = vH_C11_leaflist_3_3
	vHarnesses["vH_C11_leaflist_4_4"] = vH_C11_leaflist_4_4
}

func vH_C11_leaflist_3_3() { vC11LeafList(3, 3) }
func vH_C11_leaflist_4_4() { vC11LeafList(4, 4) }

func vMkLeafParent(prefix string, n, classes int) (*etree.Element, []string) {
	p := etree.NewElement("SegmentTimeline")
	cls := make([]string, n)
	for i := 0; i < n; i++ {
		s := p.CreateElement("S")
		cls[i] = vAtom(fmt.Sprintf("%s%d", prefix, i), classes)
		s.CreateAttr("d", cls[i])
	}
	return p, cls
}

// vTrailingIndex parses the 1-based index k of a selector ending in "[k]".
func vTrailingIndex(sel string) int {
	n := len(sel)
	if n < 3 || sel[n-1] != ']' {
		return -1
	}
	k, mul := 0, 1
	i := n - 2
	for ; i >= 0 && sel[i] >= '0' && sel[i] <= '9'; i-- {
		k += int(sel[i]-'0') * mul
		mul *= 10
	}
	if i < 0 || sel[i] != '[' {
		return -1
	}
	return k
}

func vC11LeafList(maxN, maxM int) {
	N := vConc(vInt("N", 0, maxN))
	M := vConc(vInt("M", 0, maxM))
	classes := 3
	old, oldCls := vMkLeafParent("e", N, classes)
	nw, newCls := vMkLeafParent("f", M, classes)
	root := etree.NewElement("Patch")
	const path = "/MPD/Period[@id='P0']/AdaptationSet[@id='1']/SegmentTemplate/SegmentTimeline"
	err := addLeafListChanges(root, old, nw, path)
	vAssert("C11.leaflist.ok", err == nil)
	// the document the patch is applied to: the old class list
	cur := make([]string, 0, N+M)
	cur = append(cur, oldCls...)
	for _, op := range root.ChildElements() {
		sel := op.SelectAttrValue("sel", "")
		switch op.Tag {
		case "remove":
			k := vTrailingIndex(sel)
			vAssert("C11.leaflist.remove-index-valid", k >= 1 && k <= len(cur))
			if k >= 1 && k <= len(cur) {
				cur = append(cur[:k-1], cur[k:]...)
			}
		case "add":
			ch := op.ChildElements()
			vAssert("C11.leaflist.add-has-one-child", len(ch) == 1)
			if len(ch) != 1 {
				continue
			}
			c := ch[0].SelectAttrValue("d", "")
			pos := op.SelectAttrValue("pos", "")
			if pos == "prepend" {
				vAssert("C11.leaflist.prepend-selects-parent", sel == path)
				cur = append([]string{c}, cur...)
			} else {
				vAssert("C11.leaflist.add-pos-after", pos == "after")
				k := vTrailingIndex(sel)
				vAssert("C11.leaflist.add-index-valid", k >= 1 && k <= len(cur))
				if k >= 1 && k <= len(cur) {
					rest := append([]string{c}, cur[k:]...)
					cur = append(cur[:k], rest...)
				}
			}
		default:
			vAssert("C11.leaflist.known-op", false)
		}
	}
	vAssert("C11.leaflist.result-length", len(cur) == M)
	same := len(cur) == M
	for i := 0; i < len(cur) && i < M; i++ {
		if cur[i] != newCls[i] {
			same = false
		}
	}
	vAssert("C11.leaflist.patched-old-equals-new", same)
	vReach("C11.leaflist.end")
}

// ---- addElemChanges on the children of a non-leaf element (AdaptationSets of a Period, addressed by @id) ----

func init() {
	vHarnesses["vH_C11_children_3_3"] = vH_C11_children_3_3
	vHarnesses["vH_C11_children_4_4"] = vH_C11_children_4_4
}

func vH_C11_children_3_3() { vC11Children(3, 3, 4, false) }
func vH_C11_children_4_4() { vC11Children(4, 4, 5, false) }

func init() {
	vHarnesses["vH_C11_children_moved_3_3"] = vH_C11_children_moved_3_3
}

// pairs in which an element present in both lists changes its position relative to another one
func vH_C11_children_moved_3_3() { vC11Children(3, 3, 4, true) }

// vMoved: some pair of ids common to both lists appears in a different relative order.
func vMoved(a, b []string) bool {
	for i := 0; i < len(a); i++ {
		for j := i + 1; j < len(a); j++ {
			pi, pj := vIndexOf(b, a[i]), vIndexOf(b, a[j])
			if pi >= 0 && pj >= 0 && pi > pj {
				return true
			}
		}
	}
	return false
}

var vIDs = [6]string{"a", "b", "c", "d", "e", "f"}

// vMkPeriod builds a Period whose n children are AdaptationSets with pairwise different ids out of nIDs.
func vMkPeriod(prefix string, n, nIDs int) (*etree.Element, []string) {
	p := etree.NewElement("Period")
	p.CreateAttr("id", "P0")
	ids := make([]string, n)
	var used [6]bool
	for i := 0; i < n; i++ {
		k := vConc(vInt(fmt.Sprintf("%s%d", prefix, i), 0, nIDs-1))
		vAssume(!used[k])
		used[k] = true
		ids[i] = vIDs[k]
		as := p.CreateElement("AdaptationSet")
		as.CreateAttr("id", ids[i])
	}
	return p, ids
}

// vSelID parses "<path>/AdaptationSet[@id='x']" and returns x.
func vSelID(sel, path string) string {
	pre := path + "/AdaptationSet[@id='"
	if len(sel) != len(pre)+3 || sel[:len(pre)] != pre || sel[len(sel)-2:] != "']" {
		return ""
	}
	return sel[len(pre) : len(pre)+1]
}

func vIndexOf(l []string, s string) int {
	for i, x := range l {
		if x == s {
			return i
		}
	}
	return -1
}

func vC11Children(maxN, maxM, nIDs int, moved bool) {
	N := vConc(vInt("N", 0, maxN))
	M := vConc(vInt("M", 0, maxM))
	old, oldIDs := vMkPeriod("e", N, nIDs)
	nw, newIDs := vMkPeriod("f", M, nIDs)
	if N == 0 || M == 0 {
		// a Period without children is a leaf and is handled by addLeafChanges (replace as a whole when text differs)
		return
	}
	if vMoved(oldIDs, newIDs) != moved {
		return
	}
	pfx := "C11.children"
	if moved {
		pfx = "C11.children-moved"
	}
	root := etree.NewElement("Patch")
	const path = "/MPD/Period[@id='P0']"
	err := addElemChanges(root, old, nw, path)
	vAssert(pfx+".ok", err == nil)
	cur := make([]string, 0, N+M)
	cur = append(cur, oldIDs...)
	for _, op := range root.ChildElements() {
		sel := op.SelectAttrValue("sel", "")
		switch op.Tag {
		case "remove":
			k := vIndexOf(cur, vSelID(sel, path))
			vAssert(pfx+".remove-selects-existing", k >= 0)
			if k >= 0 {
				cur = append(cur[:k], cur[k+1:]...)
			}
		case "add":
			ch := op.ChildElements()
			vAssert(pfx+".add-has-one-child", len(ch) == 1)
			if len(ch) != 1 {
				continue
			}
			c := ch[0].SelectAttrValue("id", "")
			vAssert(pfx+".add-id-unique", vIndexOf(cur, c) < 0)
			pos := op.SelectAttrValue("pos", "")
			if pos == "prepend" {
				vAssert(pfx+".prepend-selects-parent", sel == path)
				cur = append([]string{c}, cur...)
			} else {
				vAssert(pfx+".add-pos-after", pos == "after")
				k := vIndexOf(cur, vSelID(sel, path))
				vAssert(pfx+".add-after-existing", k >= 0)
				if k >= 0 {
					rest := append([]string{c}, cur[k+1:]...)
					cur = append(cur[:k+1], rest...)
				}
			}
		default:
			vAssert(pfx+".known-op", false)
		}
	}
	same := len(cur) == M
	for i := 0; i < len(cur) && i < M; i++ {
		if cur[i] != newIDs[i] {
			same = false
		}
	}
	vAssert(pfx+".patched-old-equals-new", same)
	vReach(pfx + ".end")
}
