//go:build verif

package patch

import (
	"fmt"

	"github.com/beevik/etree"
)

// C11 (attributes): compareAttributes on two attribute lists over a universe of four names (one in a namespace):
// every name present only in the old list is reported as removed, only in the new list as added (with the new value),
// in both with different values as changed (with the new value), in both with equal values not at all - and nothing
// else is reported. The lists are handed over in sorted order; under symbolic execution sortAttr (sort.Slice,
// reflection) is a no-op, natively the real sort runs.

func init() {
	vHarnesses["vH_C11_attributes"] = vH_C11_attributes
}

var vAttrNames = [4][2]string{{"", "availabilityStartTime"}, {"", "id"}, {"", "startWithSAP"}, {"xsi", "schemaLocation"}}
var vAttrVals = [2]string{"1", "PT2S"}

func vAttrIn(l []etree.Attr, space, key string) (bool, string, int) {
	found, val, n := false, "", 0
	for _, a := range l {
		if a.Space == space && a.Key == key {
			found, val = true, a.Value
			n++
		}
	}
	return found, val, n
}

func vH_C11_attributes() {
	var old, new []etree.Attr
	var inOld, inNew [4]bool
	var vOld, vNew [4]string
	for i, nm := range vAttrNames {
		inOld[i] = vBool(fmt.Sprintf("old%d", i))
		inNew[i] = vBool(fmt.Sprintf("new%d", i))
		if inOld[i] {
			vOld[i] = vAttrVals[vConc(vInt(fmt.Sprintf("ov%d", i), 0, 1))]
			old = append(old, etree.Attr{Space: nm[0], Key: nm[1], Value: vOld[i]})
		}
		if inNew[i] {
			vNew[i] = vAttrVals[vConc(vInt(fmt.Sprintf("nv%d", i), 0, 1))]
			new = append(new, etree.Attr{Space: nm[0], Key: nm[1], Value: vNew[i]})
		}
	}
	ac, err := compareAttributes(old, new)
	vAssert("C11.attrs.ok", err == nil)
	total := 0
	for i, nm := range vAttrNames {
		rem, _, nr := vAttrIn(ac.Removed, nm[0], nm[1])
		add, av, na := vAttrIn(ac.Added, nm[0], nm[1])
		chg, cv, nc := vAttrIn(ac.Changed, nm[0], nm[1])
		vAssert("C11.attrs.removed-iff-only-in-old", rem == (inOld[i] && !inNew[i]))
		vAssert("C11.attrs.added-iff-only-in-new", add == (!inOld[i] && inNew[i]))
		vAssert("C11.attrs.changed-iff-value-differs", chg == (inOld[i] && inNew[i] && vOld[i] != vNew[i]))
		if add {
			vAssert("C11.attrs.added-carries-new-value", av == vNew[i])
		}
		if chg {
			vAssert("C11.attrs.changed-carries-new-value", cv == vNew[i])
		}
		vAssert("C11.attrs.reported-once", nr <= 1 && na <= 1 && nc <= 1)
		total += nr + na + nc
	}
	vAssert("C11.attrs.nothing-else-reported", total == len(ac.Removed)+len(ac.Added)+len(ac.Changed))
	vReach("C11.attrs.end")
}
