package symex

import (
	"math/big"
)

// Exact shadows for float64 terms.
//
// Every float64 value built by the executor is a Real term in which each IEEE operation is an
// application of the uninterpreted RN. For such a term t, shadow(t) returns an RN-free Real term e
// and a constant d with  |t - e| <= d  for every real IEEE-754 execution (d accumulates 2^-53 times
// the interval bound of each rounded intermediate). Operations whose result is discrete
// (comparisons, Round/Floor/Ceil/int conversion) are then decided in exact arithmetic whenever the
// exact value is farther than d from the tie/boundary, and only the remaining band is left to the
// axiomatised RN. This keeps the solver in integer/rational arithmetic on almost all paths and is
// sound: inside the "safe" guard the exact and the IEEE result provably coincide.

type shadowInfo struct {
	e  *Term
	d  *big.Rat
	ok bool
}

var shadowMemo = map[*Term]shadowInfo{}

func shadow(t *Term) (e *Term, d *big.Rat, ok bool) {
	if s, hit := shadowMemo[t]; hit {
		return s.e, s.d, s.ok
	}
	e, d, ok = shadow1(t)
	shadowMemo[t] = shadowInfo{e, d, ok}
	return
}

func maxAbs(t *Term) *big.Rat {
	if t.Lo == nil || t.Hi == nil {
		return nil
	}
	m := new(big.Rat).Abs(t.Lo)
	if h := new(big.Rat).Abs(t.Hi); h.Cmp(m) > 0 {
		m = h
	}
	return m
}

func shadow1(t *Term) (*Term, *big.Rat, bool) {
	zero := new(big.Rat)
	if t.Sort != SReal {
		return nil, nil, false
	}
	switch t.Op {
	case "c", "to_real", "v":
		return t, zero, true
	case "@RN":
		x := t.Args[0]
		ex, dx, ok := shadow(x)
		if !ok {
			return nil, nil, false
		}
		m := maxAbs(x)
		if m == nil {
			return nil, nil, false
		}
		d := new(big.Rat).Mul(ulp53, m)
		d.Add(d, tinyAbs)
		d.Add(d, dx)
		return ex, d, true
	case "+":
		var es []*Term
		d := new(big.Rat)
		for _, a := range t.Args {
			ea, da, ok := shadow(a)
			if !ok {
				return nil, nil, false
			}
			es = append(es, ea)
			d.Add(d, da)
		}
		e := es[0]
		for _, x := range es[1:] {
			e = Add(e, x)
		}
		return e, d, true
	case "*":
		if t.Args[0].IsConst() {
			ea, da, ok := shadow(t.Args[1])
			if !ok {
				return nil, nil, false
			}
			c := t.Args[0].Rat
			return Mul(t.Args[0], ea), new(big.Rat).Mul(new(big.Rat).Abs(c), da), true
		}
		return nil, nil, false
	case "ite":
		ea, da, ok1 := shadow(t.Args[1])
		eb, db, ok2 := shadow(t.Args[2])
		if !ok1 || !ok2 {
			return nil, nil, false
		}
		d := da
		if db.Cmp(d) > 0 {
			d = db
		}
		return Ite(t.Args[0], ea, eb), d, true
	}
	return nil, nil, false
}

// ratioForm writes an RN-free Real term as N/D with N an Int term and D a positive integer constant.
func ratioForm(e *Term) (n *Term, dd *big.Int, ok bool) {
	l := &linForm{k: new(big.Rat)}
	l.accumulate(e, ratOne, 0)
	den := big.NewInt(1)
	lcm := func(a, b *big.Int) *big.Int {
		g := new(big.Int).GCD(nil, nil, a, b)
		return new(big.Int).Mul(new(big.Int).Quo(a, g), b)
	}
	for i, a := range l.atoms {
		if a.Op != "to_real" {
			if a.Op == "ite" {
				// ite of ratio forms with a common denominator is handled by the caller through Ite-pushing; give up here
			}
			return nil, nil, false
		}
		den = lcm(den, l.coefs[i].Denom())
	}
	den = lcm(den, l.k.Denom())
	if den.BitLen() > 80 {
		return nil, nil, false
	}
	dr := new(big.Rat).SetInt(den)
	li := &linForm{k: new(big.Rat).Mul(l.k, dr)}
	for i, a := range l.atoms {
		li.accumulate(a.Args[0], new(big.Rat).Mul(l.coefs[i], dr), 0)
	}
	return li.build(SInt), den, true
}

func ceilRatInt(r *big.Rat) *big.Int {
	c := ratCeil(r)
	return new(big.Int).Set(c.Num())
}

// floorWithShadow returns an Int term equal to floor(f) for the IEEE value f, using exact arithmetic
// when f's exact shadow is farther than its error bound from an integer boundary.
func floorWithShadow(f *Term) *Term {
	general := Floor(f)
	e, d, ok := shadow(f)
	if !ok || e == f && d.Sign() == 0 {
		return general
	}
	n, den, ok := ratioForm(e)
	if !ok {
		return general
	}
	D := BigC(den)
	exact := EDiv(n, D)
	if d.Sign() == 0 {
		return exact
	}
	// frac(e) = (n mod D)/D must lie in [d, 1-d): margin g = ceil(D*d)+1
	g := ceilRatInt(new(big.Rat).Mul(new(big.Rat).SetInt(den), d))
	g.Add(g, big.NewInt(1))
	if new(big.Int).Mul(g, big.NewInt(2)).Cmp(den) >= 0 {
		return general
	}
	m := EMod(n, D)
	safe := And(Ge(m, BigC(g)), Le(m, BigC(new(big.Int).Sub(den, g))))
	return Ite(safe, exact, general)
}

// cmpWithShadow decides a float comparison in exact arithmetic when the exact difference exceeds the
// accumulated error bound; op is "<" or "<=" (a op b).
func cmpWithShadow(op string, a, b *Term) *Term {
	var general *Term
	if op == "<" {
		general = Lt(a, b)
	} else {
		general = Le(a, b)
	}
	if _, isC := general.ConstBool(); isC {
		return general
	}
	general = refineWithExact(op, a, b, general)
	ea, da, ok1 := shadow(a)
	eb, db, ok2 := shadow(b)
	if !ok1 || !ok2 {
		return general
	}
	d := new(big.Rat).Add(da, db)
	if d.Sign() == 0 && ea == a && eb == b {
		return general
	}
	dt := RealC(d)
	diff := Sub(eb, ea) // b - a (exact)
	if d.Sign() == 0 {
		if op == "<" {
			return Lt(ea, eb)
		}
		return Le(ea, eb)
	}
	var sureTrue, sureFalse *Term
	if op == "<" {
		sureTrue = Gt(diff, dt)         // b - a > d  => a < b
		sureFalse = Ge(Neg(diff), dt)   // a - b >= d => a >= b
	} else {
		sureTrue = Ge(diff, dt)         // b - a >= d => a <= b
		sureFalse = Gt(Neg(diff), dt)   // a - b > d  => a > b
	}
	return Ite(sureTrue, True, Ite(sureFalse, False, general))
}

// exactRepr: t denotes a value that is exactly representable as a float64 (an integer of magnitude <= 2^53
// or a constant that survives the float64 round trip).
func exactRepr(t *Term) bool {
	if t.Op == "c" {
		f, _ := t.Rat.Float64()
		r := new(big.Rat)
		return r.SetFloat64(f) != nil && r.Cmp(t.Rat) == 0
	}
	if t.IsIntReal && t.Lo != nil && t.Hi != nil && t.Lo.Cmp(new(big.Rat).Neg(two53)) >= 0 && t.Hi.Cmp(two53) <= 0 {
		return true
	}
	return false
}

// refineWithExact strengthens a comparison between RN(x) and an exactly representable y with what
// round-to-nearest guarantees (RN is monotone and RN(y) = y):  x <= y => RN(x) <= y  and  x >= y => RN(x) >= y.
// The result is equivalent to the plain comparison for every IEEE execution.
func refineWithExact(op string, a, b, general *Term) *Term {
	if a.Op == "@RN" && exactRepr(b) {
		x := a.Args[0]
		if op == "<" { // RN(x) < y  =>  x < y
			return And(general, Lt(x, b))
		}
		return Or(general, Le(x, b)) // x <= y => RN(x) <= y
	}
	if b.Op == "@RN" && exactRepr(a) {
		x := b.Args[0]
		if op == "<" { // y < RN(x)  =>  y < x
			return And(general, Lt(a, x))
		}
		return Or(general, Le(a, x)) // y <= x => y <= RN(x)
	}
	return general
}
