package symex

import (
	"fmt"
	"go/constant"
	"go/types"
	"math/big"

	"golang.org/x/tools/go/ssa"
)

// Value is the interpreter's representation of a Go value. All composite
// values are immutable trees (functional update), so forking a state only
// copies the heap's top-level slice.
type Value interface{}

type StructV struct{ F []Value }
type ArrayV struct{ E []Value }

// PathEl is one step of an access path: a field (Field>=0) or an index.
type PathEl struct {
	Field int
	Idx   *Term
}

type PtrV struct {
	Obj  int // <0: nil
	Path []PathEl
}

type SliceV struct {
	Obj           int // <0: nil slice
	Path          []PathEl
	Off, Len, Cap *Term
}

type StrV struct {
	S    string
	Atom *Term       // symbolic atom (Int id); only ==, != and map key allowed
	Fmt  *OpaqueFmt  // result of fmt.Sprintf with non-concrete args
	Bytes []*Term    // symbolic byte vector of concrete length
	Parts []StrPart  // structured string: literals and decimal renderings of integer terms (strparts.go)
}

type OpaqueFmt struct {
	Format string
	Args   []Value
}

type MapV struct{ Obj int }
type MapObj struct {
	Keys []Value
	Vals []Value
}

type IfaceV struct {
	T types.Type // nil => nil interface
	V Value
}

type FuncV struct {
	Fn      *ssa.Function
	Env     []Value
	Builtin *ssa.Builtin
	Nil     bool
	// bound method value
	Recv Value
	HasRecv bool
}

type TupleV []Value

type InfV struct{ Neg bool }

type PoisonV struct{ Why string }

// OpaqueErr is the dynamic value of an error made by errors.New / fmt.Errorf.
type OpaqueErr struct {
	Site    string
	Msg     string
	Wrapped Value // IfaceV of wrapped error, or nil
}

type IterV struct{ Obj int }
type IterState struct {
	Keys []Value
	Vals []Value
	Pos  int
	Str  string
	IsStr bool
}

type ChanV struct{ Obj int }

var nilPtr = PtrV{Obj: -1}

func isIntKind(b *types.Basic) bool {
	return b.Info()&types.IsInteger != 0
}

func intBits(b *types.Basic) (bits int, signed bool) {
	switch b.Kind() {
	case types.Int8:
		return 8, true
	case types.Int16:
		return 16, true
	case types.Int32:
		return 32, true
	case types.Int64, types.Int, types.UntypedInt, types.UntypedRune:
		return 64, true
	case types.Uint8:
		return 8, false
	case types.Uint16:
		return 16, false
	case types.Uint32:
		return 32, false
	case types.Uint64, types.Uint, types.Uintptr:
		return 64, false
	}
	return 0, false
}

func typeRange(b *types.Basic) (lo, hi *big.Int) {
	bits, signed := intBits(b)
	if bits == 0 {
		return nil, nil
	}
	if signed {
		hi = new(big.Int).Lsh(big.NewInt(1), uint(bits-1))
		lo = new(big.Int).Neg(hi)
		hi.Sub(hi, big.NewInt(1))
		return
	}
	lo = big.NewInt(0)
	hi = new(big.Int).Lsh(big.NewInt(1), uint(bits))
	hi.Sub(hi, big.NewInt(1))
	return
}

// wrapInt reduces an exact Int term into the range of basic type b (two's complement),
// eliding the reduction when the interval shows it is the identity.
func wrapInt(t *Term, b *types.Basic) *Term {
	lo, hi := typeRange(b)
	if lo == nil {
		return t
	}
	rlo, rhi := new(big.Rat).SetInt(lo), new(big.Rat).SetInt(hi)
	if t.Lo != nil && t.Hi != nil && t.Lo.Cmp(rlo) >= 0 && t.Hi.Cmp(rhi) <= 0 {
		return t
	}
	bits, signed := intBits(b)
	m := new(big.Int).Lsh(big.NewInt(1), uint(bits))
	// guard the reduction with an in-range test so that the solver only has to reason
	// about `mod 2^k` on the (usually infeasible) out-of-range side
	inRange := And(Le(BigC(lo), t), Le(t, BigC(hi)))
	if !signed {
		return Ite(inRange, t, EMod(t, BigC(m)))
	}
	half := new(big.Int).Lsh(big.NewInt(1), uint(bits-1))
	return Ite(inRange, t, Sub(EMod(Add(t, BigC(half)), BigC(m)), BigC(half)))
}

func basicOf(t types.Type) *types.Basic {
	b, _ := t.Underlying().(*types.Basic)
	return b
}

func zeroValue(t types.Type) Value {
	switch u := t.Underlying().(type) {
	case *types.Basic:
		switch {
		case u.Info()&types.IsInteger != 0:
			return IntC(0)
		case u.Info()&types.IsBoolean != 0:
			return False
		case u.Info()&types.IsFloat != 0:
			return RealC(new(big.Rat))
		case u.Info()&types.IsString != 0:
			return StrV{}
		case u.Kind() == types.UnsafePointer:
			return nilPtr
		case u.Kind() == types.UntypedNil:
			return nilPtr
		}
	case *types.Pointer:
		return nilPtr
	case *types.Slice:
		return SliceV{Obj: -1, Off: IntC(0), Len: IntC(0), Cap: IntC(0)}
	case *types.Map:
		return MapV{Obj: -1}
	case *types.Interface:
		return IfaceV{}
	case *types.Signature:
		return FuncV{Nil: true}
	case *types.Chan:
		return ChanV{Obj: -1}
	case *types.Struct:
		f := make([]Value, u.NumFields())
		for i := range f {
			f[i] = zeroValue(u.Field(i).Type())
		}
		return &StructV{F: f}
	case *types.Array:
		n := int(u.Len())
		e := make([]Value, n)
		if n > 0 {
			z := zeroValue(u.Elem())
			for i := range e {
				e[i] = z
			}
		}
		return &ArrayV{E: e}
	case *types.Tuple:
		tv := make(TupleV, u.Len())
		for i := range tv {
			tv[i] = zeroValue(u.At(i).Type())
		}
		return tv
	}
	panic(unsupported("zero value of " + t.String()))
}

func constValue(c *ssa.Const) Value {
	t := c.Type()
	if c.Value == nil {
		return zeroValue(t)
	}
	switch u := t.Underlying().(type) {
	case *types.Basic:
		switch {
		case u.Info()&types.IsInteger != 0:
			v := constant.ToInt(c.Value)
			bi, ok := constant.Val(v).(*big.Int)
			if !ok {
				i64, _ := constant.Int64Val(v)
				bi = big.NewInt(i64)
			}
			return BigC(bi)
		case u.Info()&types.IsBoolean != 0:
			return BoolC(constant.BoolVal(c.Value))
		case u.Info()&types.IsFloat != 0:
			// exact binary value of the float64 constant
			f, _ := constant.Float64Val(c.Value)
			r := new(big.Rat)
			if r.SetFloat64(f) == nil {
				return InfV{Neg: f < 0}
			}
			return RealC(r)
		case u.Info()&types.IsString != 0:
			return StrV{S: constant.StringVal(c.Value)}
		}
	}
	panic(unsupported("const of type " + t.String()))
}

type unsupportedErr struct{ msg string }

func (u unsupportedErr) Error() string { return "unsupported: " + u.msg }
func unsupported(msg string) unsupportedErr { return unsupportedErr{msg} }

func pathEq(a, b []PathEl) bool {
	if len(a) != len(b) {
		return false
	}
	for i := range a {
		if a[i].Field != b[i].Field || a[i].Idx != b[i].Idx {
			return false
		}
	}
	return true
}

func describe(v Value) string {
	switch x := v.(type) {
	case *Term:
		if x.IsConst() && x.Sort == SInt {
			return x.Rat.Num().String()
		}
		s := x.String()
		if len(s) > 200 {
			s = s[:200] + "..."
		}
		return s
	case StrV:
		if x.Atom != nil {
			return "atom(" + x.Atom.String() + ")"
		}
		return fmt.Sprintf("%q", x.S)
	case nil:
		return "<nil>"
	}
	return fmt.Sprintf("%T", v)
}
