package symex

import (
	"fmt"
	"go/types"
	"math/big"

	"golang.org/x/tools/go/ssa"
)

// Channels for single-goroutine execution: a channel is a FIFO queue with a concrete capacity. An operation
// that would block for ever (nothing buffered, not closed, no other goroutine exists in the model) ends the
// path as "blocked" (counted with the cut paths and listed in Result.Blocked). `select` picks among the ready
// cases; when several are ready the choice is a fresh symbolic input (sel_<k>) and every ready case is explored.

type ChanObj struct {
	Buf    []Value
	Cap    int
	Closed bool
}

func (in *Interp) chanObj(st *State, v Value, what string) (*ChanObj, int) {
	c, ok := v.(ChanV)
	if !ok {
		panic(unsupported(fmt.Sprintf("%s on %T", what, v)))
	}
	if c.Obj < 0 {
		return nil, -1
	}
	o, ok := st.Heap[c.Obj].(*ChanObj)
	if !ok {
		panic(unsupported(what + ": not a channel object"))
	}
	return o, c.Obj
}

func (in *Interp) blocked(st *State, fr *Frame, ins ssa.Instruction, what string) {
	site := in.posOf(ins, fr)
	key := what + " blocks for ever @" + site
	if !in.blockedSeen[key] {
		in.blockedSeen[key] = true
		in.Res.Blocked = append(in.Res.Blocked, key)
	}
	panic(pathEnd{"cut"})
}

func (in *Interp) makeChan(st *State, fr *Frame, x *ssa.MakeChan) Value {
	n := in.concretize(st, in.term(st, fr, x.Size), 0, 64)
	id := st.alloc(&ChanObj{Cap: int(n)})
	return ChanV{Obj: id}
}

func (in *Interp) chanSend(st *State, fr *Frame, ins ssa.Instruction, ch Value, v Value) {
	o, id := in.chanObj(st, ch, "send")
	if o == nil {
		in.blocked(st, fr, ins, "send on nil channel")
	}
	if o.Closed {
		in.require(st, False, "send on closed channel")
		panic(pathEnd{"panic"})
	}
	if len(o.Buf) >= o.Cap {
		in.blocked(st, fr, ins, "send on a full/unbuffered channel (no receiver in the single-goroutine model)")
	}
	nb := append(append([]Value(nil), o.Buf...), v)
	st.Heap[id] = &ChanObj{Buf: nb, Cap: o.Cap, Closed: o.Closed}
}

// chanRecv returns (value, ok).
func (in *Interp) chanRecv(st *State, fr *Frame, ins ssa.Instruction, ch Value, elem types.Type) (Value, bool) {
	o, id := in.chanObj(st, ch, "receive")
	if o == nil {
		in.blocked(st, fr, ins, "receive on nil channel")
	}
	if len(o.Buf) > 0 {
		v := o.Buf[0]
		st.Heap[id] = &ChanObj{Buf: append([]Value(nil), o.Buf[1:]...), Cap: o.Cap, Closed: o.Closed}
		return v, true
	}
	if o.Closed {
		return zeroValue(elem), false
	}
	in.blocked(st, fr, ins, "receive on an empty channel")
	return nil, false
}

func (in *Interp) chanClose(st *State, ch Value) {
	o, id := in.chanObj(st, ch, "close")
	if o == nil {
		in.require(st, False, "close of nil channel")
		panic(pathEnd{"panic"})
	}
	if o.Closed {
		in.require(st, False, "close of closed channel")
		panic(pathEnd{"panic"})
	}
	st.Heap[id] = &ChanObj{Buf: o.Buf, Cap: o.Cap, Closed: true}
}

func (in *Interp) doSelect(st *State, fr *Frame, x *ssa.Select) Value {
	var ready []int
	for i, s := range x.States {
		o, _ := in.chanObj(st, in.get(st, fr, s.Chan), "select")
		if o == nil {
			continue
		}
		if s.Dir == types.RecvOnly {
			if len(o.Buf) > 0 || o.Closed {
				ready = append(ready, i)
			}
		} else {
			if o.Closed || len(o.Buf) < o.Cap {
				ready = append(ready, i)
			}
		}
	}
	idx := -1
	switch {
	case len(ready) == 0 && !x.Blocking:
		idx = -1
	case len(ready) == 0:
		in.blocked(st, fr, x, "select")
	case len(ready) == 1:
		idx = ready[0]
	default:
		// Go picks uniformly among the ready cases: explore all of them
		name := fmt.Sprintf("sel_%d", st.SelN)
		t := in.newInput(st, name, SInt, new(big.Rat), ratOfInt(int64(len(ready)-1)))
		k := in.concretize(st, t, 0, int64(len(ready)-1))
		idx = ready[k]
	}
	st.SelN++
	res := TupleV{IntC(int64(idx)), False}
	for i, s := range x.States {
		if s.Dir != types.RecvOnly {
			continue
		}
		elem := s.Chan.Type().Underlying().(*types.Chan).Elem()
		if i == idx {
			v, ok := in.chanRecv(st, fr, x, in.get(st, fr, s.Chan), elem)
			res[1] = BoolC(ok)
			res = append(res, v)
		} else {
			res = append(res, zeroValue(elem))
		}
	}
	if idx >= 0 && x.States[idx].Dir != types.RecvOnly {
		s := x.States[idx]
		in.chanSend(st, fr, x, in.get(st, fr, s.Chan), in.get(st, fr, s.Send))
	}
	return res
}

// doGo: a go statement is executed synchronously (the goroutine runs to completion at the spawn point) when
// the callee is a recording stub of the harness (`call:` stub) or the function is listed with kind "goinline".
// Any other go statement is unsupported. Running the goroutine at once is one legal schedule; it is only used
// for callees that do not communicate back except through sync.WaitGroup and the harness's ghost log.
func (in *Interp) doGo(st *State, fr *Frame, x *ssa.Go) {
	cc := x.Common()
	fv, args := in.resolveCall(st, fr, cc)
	if fv.Fn == nil {
		panic(unsupported("go statement on builtin/opaque function"))
	}
	name := fv.Fn.String()
	k, ok := in.Cfg.Stubs[name]
	if !ok || !(k == "goinline" || len(k) > 5 && k[:5] == "call:" || k == "noop") {
		panic(unsupported("go statement: " + name))
	}
	in.stubSeen["go statement run synchronously at the spawn point: "+name] = true
	if k == "goinline" {
		// run the real body synchronously
		in.ensureBuilt(fv.Fn)
	}
	in.invoke(st, fr, fv, args, -1, false)
}
