package symex

import (
	"strconv"
	"strings"
)

// Structured strings: a concatenation of concrete literals and decimal renderings of integer terms
// (`strconv.Itoa(x)` / `%d`). They let request URLs such as "/livesim2/start_<x>/tsbd_<y>/testpic_2s/V300/<n>.m4s"
// run through the real URL parsing code with the numbers symbolic. Every operation is exact or unsupported:
// a separator/pattern that contains no digit and no '-' can only occur inside a literal, because the rendering
// of an integer consists of digits and an optional leading '-'.

type StrPart struct {
	Lit string
	Num *Term // non-nil: decimal rendering of this integer term (Lit unused)
}

func normParts(ps []StrPart) StrV {
	var out []StrPart
	for _, p := range ps {
		if p.Num != nil {
			if c, ok := p.Num.ConstInt64(); ok {
				p = StrPart{Lit: strconv.FormatInt(c, 10)}
			}
		}
		if p.Num == nil {
			if p.Lit == "" {
				continue
			}
			if n := len(out); n > 0 && out[n-1].Num == nil {
				out[n-1].Lit += p.Lit
				continue
			}
		}
		out = append(out, p)
	}
	if len(out) == 0 {
		return StrV{}
	}
	if len(out) == 1 && out[0].Num == nil {
		return StrV{S: out[0].Lit}
	}
	return StrV{Parts: out}
}

// partsOf returns the structured form of a string value (ok=false for atoms, byte vectors, other opaque strings).
func partsOf(v Value) ([]StrPart, bool) {
	s, ok := v.(StrV)
	if !ok {
		return nil, false
	}
	switch {
	case s.Parts != nil:
		return s.Parts, true
	case s.Atom != nil || s.Bytes != nil:
		return nil, false
	case s.Fmt != nil:
		// a format made of literal text and %d verbs whose arguments are integer terms
		f := s.Fmt.Format
		var ps []StrPart
		k := 0
		for {
			i := strings.IndexByte(f, '%')
			if i < 0 {
				break
			}
			if i+1 >= len(f) || f[i+1] != 'd' || k >= len(s.Fmt.Args) {
				return nil, false
			}
			a := s.Fmt.Args[k]
			if iv, ok := a.(IfaceV); ok {
				a = iv.V
			}
			t, ok := a.(*Term)
			if !ok || t.Sort != SInt {
				return nil, false
			}
			ps = append(ps, StrPart{Lit: f[:i]}, StrPart{Num: t})
			k++
			f = f[i+2:]
		}
		if k != len(s.Fmt.Args) || strings.HasPrefix(s.Fmt.Format, "enc:") {
			return nil, false
		}
		ps = append(ps, StrPart{Lit: f})
		n := normParts(ps)
		if n.Parts != nil {
			return n.Parts, true
		}
		return []StrPart{{Lit: n.S}}, true
	}
	if s.S == "" {
		return []StrPart{}, true
	}
	return []StrPart{{Lit: s.S}}, true
}

func isStructured(v Value) bool {
	s, ok := v.(StrV)
	return ok && s.Parts != nil
}

func digitFree(p string) bool {
	return p != "" && !strings.ContainsAny(p, "0123456789-")
}

// sepSafe: sep cannot occur inside the rendering of any number of ps (no digits; '-' only if all numbers are >= 0).
func sepSafe(ps []StrPart, sep string) bool {
	if sep == "" || strings.ContainsAny(sep, "0123456789") {
		return false
	}
	if !strings.Contains(sep, "-") {
		return true
	}
	for _, p := range ps {
		if p.Num != nil && !(p.Num.Lo != nil && p.Num.Lo.Sign() >= 0) {
			return false
		}
	}
	return true
}

// couldOverlapNum reports whether an occurrence of pattern p might overlap the rendering of a numeric part
// (only relevant for patterns that contain digits or '-'). Conservative: true means "cannot rule out".
func couldOverlapNum(ps []StrPart, p string) bool {
	hasNum := false
	for _, x := range ps {
		if x.Num != nil {
			hasNum = true
		}
	}
	if !hasNum {
		return false
	}
	if digitFree(p) {
		return false
	}
	isD := func(c byte) bool { return c >= '0' && c <= '9' || c == '-' }
	for k, x := range ps {
		if x.Num == nil {
			continue
		}
		prev, next := "", ""
		prevIsStart, nextIsEnd := k == 0, k == len(ps)-1
		if k > 0 && ps[k-1].Num == nil {
			prev = ps[k-1].Lit
		} else if k > 0 {
			return true // two adjacent numbers
		}
		if k+1 < len(ps) && ps[k+1].Num == nil {
			next = ps[k+1].Lit
		} else if k+1 < len(ps) {
			return true
		}
		// every maximal run of digit chars of p could be (part of) the rendering
		for i := 0; i < len(p); {
			if !isD(p[i]) {
				i++
				continue
			}
			j := i
			for j < len(p) && isD(p[j]) {
				j++
			}
			// run p[i:j]; left context p[:i] must be matched by the text before the number, right context p[j:] after it
			leftOK := i == 0 || strings.HasSuffix(prev, p[:i]) || (len(p[:i]) > len(prev) && !prevIsStart && strings.HasSuffix(p[:i], prev) && k >= 2)
			rightOK := j == len(p) || strings.HasPrefix(next, p[j:]) || (len(p[j:]) > len(next) && !nextIsEnd && strings.HasPrefix(p[j:], next) && k+2 < len(ps))
			if leftOK && rightOK {
				return true
			}
			i = j
		}
	}
	return false
}

// splitParts splits at every occurrence of sep (digit-free) inside literals.
func splitParts(ps []StrPart, sep string, max int) [][]StrPart {
	var res [][]StrPart
	var cur []StrPart
	for _, p := range ps {
		if p.Num != nil {
			cur = append(cur, p)
			continue
		}
		lit := p.Lit
		for {
			if max > 0 && len(res) >= max-1 {
				break
			}
			i := strings.Index(lit, sep)
			if i < 0 {
				break
			}
			cur = append(cur, StrPart{Lit: lit[:i]})
			res = append(res, cur)
			cur = nil
			lit = lit[i+len(sep):]
		}
		cur = append(cur, StrPart{Lit: lit})
	}
	res = append(res, cur)
	return res
}

func litString(ps []StrPart) (string, bool) {
	var sb strings.Builder
	for _, p := range ps {
		if p.Num != nil {
			return "", false
		}
		sb.WriteString(p.Lit)
	}
	return sb.String(), true
}

// hasPrefixParts decides strings.HasPrefix(s, p) for a structured s; ok=false when it depends on the digits.
func hasPrefixParts(ps []StrPart, p string) (res, ok bool) {
	if p == "" {
		return true, true
	}
	if len(ps) == 0 {
		return false, true
	}
	if ps[0].Num != nil {
		c := p[0]
		if !(c >= '0' && c <= '9' || c == '-') {
			return false, true
		}
		return false, false
	}
	lit := ps[0].Lit
	if len(lit) >= len(p) {
		return strings.HasPrefix(lit, p), true
	}
	if !strings.HasPrefix(p, lit) {
		return false, true
	}
	if len(ps) == 1 {
		return false, true
	}
	// continues into a number
	c := p[len(lit)]
	if !(c >= '0' && c <= '9' || c == '-') {
		return false, true
	}
	return false, false
}

func hasSuffixParts(ps []StrPart, p string) (res, ok bool) {
	if p == "" {
		return true, true
	}
	if len(ps) == 0 {
		return false, true
	}
	last := ps[len(ps)-1]
	if last.Num != nil {
		c := p[len(p)-1]
		if !(c >= '0' && c <= '9') {
			return false, true
		}
		return false, false
	}
	lit := last.Lit
	if len(lit) >= len(p) {
		return strings.HasSuffix(lit, p), true
	}
	if !strings.HasSuffix(p, lit) {
		return false, true
	}
	if len(ps) == 1 {
		return false, true
	}
	c := p[len(p)-len(lit)-1]
	if !(c >= '0' && c <= '9') {
		return false, true
	}
	return false, false
}

// dropPrefixParts removes n bytes from the front; ok=false when the cut falls into a number.
func dropPrefixParts(ps []StrPart, n int) ([]StrPart, bool) {
	out := append([]StrPart(nil), ps...)
	for n > 0 {
		if len(out) == 0 || out[0].Num != nil {
			return nil, false
		}
		if len(out[0].Lit) > n {
			out[0] = StrPart{Lit: out[0].Lit[n:]}
			return out, true
		}
		n -= len(out[0].Lit)
		out = out[1:]
	}
	return out, true
}

func dropSuffixParts(ps []StrPart, n int) ([]StrPart, bool) {
	out := append([]StrPart(nil), ps...)
	for n > 0 {
		if len(out) == 0 || out[len(out)-1].Num != nil {
			return nil, false
		}
		l := out[len(out)-1].Lit
		if len(l) > n {
			out[len(out)-1] = StrPart{Lit: l[:len(l)-n]}
			return out, true
		}
		n -= len(l)
		out = out[:len(out)-1]
	}
	return out, true
}

func canonicalInt(s string) (int64, bool) {
	v, err := strconv.ParseInt(s, 10, 64)
	if err != nil || strconv.FormatInt(v, 10) != s {
		return 0, false
	}
	return v, true
}

// eqParts: equality of two structured strings as a boolean term; ok=false when undecidable in this representation.
func eqParts(a, b []StrPart) (*Term, bool) {
	// strip common literal prefix/suffix, then the remaining shapes must line up
	res := True
	for {
		if len(a) == 0 && len(b) == 0 {
			return res, true
		}
		if len(a) == 0 || len(b) == 0 {
			// the other side is non-empty: a number renders at least one char, a literal part is non-empty
			return False, true
		}
		x, y := a[0], b[0]
		switch {
		case x.Num == nil && y.Num == nil:
			n := len(x.Lit)
			if len(y.Lit) < n {
				n = len(y.Lit)
			}
			if x.Lit[:n] != y.Lit[:n] {
				return False, true
			}
			if len(x.Lit) == n {
				a = a[1:]
			} else {
				a = append([]StrPart{{Lit: x.Lit[n:]}}, a[1:]...)
			}
			if len(y.Lit) == n {
				b = b[1:]
			} else {
				b = append([]StrPart{{Lit: y.Lit[n:]}}, b[1:]...)
			}
		case x.Num != nil && y.Num != nil:
			// both numbers followed by the same kind of delimiter (or end): equal iff values equal, when the texts
			// after them start with a non-digit (or are empty)
			if !numDelimited(a[1:]) || !numDelimited(b[1:]) {
				return nil, false
			}
			res = And(res, Eq(x.Num, y.Num))
			a, b = a[1:], b[1:]
		default:
			// number against literal text
			num, lit, restN, restL := x, y, a[1:], b[1:]
			if x.Num == nil {
				num, lit, restN, restL = y, x, b[1:], a[1:]
			}
			if !numDelimited(restN) {
				return nil, false
			}
			// the maximal leading [-0-9]* run of the literal must be the canonical rendering
			i := 0
			for i < len(lit.Lit) && (lit.Lit[i] >= '0' && lit.Lit[i] <= '9' || (i == 0 && lit.Lit[i] == '-')) {
				i++
			}
			if i == len(lit.Lit) && len(restL) > 0 {
				return nil, false // literal digits followed by another number
			}
			v, ok := canonicalInt(lit.Lit[:i])
			if !ok {
				return False, true
			}
			res = And(res, Eq(num.Num, IntC(v)))
			var nl []StrPart
			if i < len(lit.Lit) {
				nl = append([]StrPart{{Lit: lit.Lit[i:]}}, restL...)
			} else {
				nl = restL
			}
			if x.Num != nil {
				a, b = restN, nl
			} else {
				a, b = nl, restN
			}
		}
	}
}

// numDelimited: the text after a number does not start with a digit (so the number's rendering is delimited).
func numDelimited(rest []StrPart) bool {
	if len(rest) == 0 {
		return true
	}
	if rest[0].Num != nil {
		return false
	}
	c := rest[0].Lit[0]
	return !(c >= '0' && c <= '9')
}
