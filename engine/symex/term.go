// Package symex is a bounded, path-forking symbolic executor for go/ssa that
// discharges assertions with an SMT solver (z3 -in).
package symex

import (
	"fmt"
	"math/big"
	"strings"
)

type Sort int

const (
	SInt Sort = iota
	SBool
	SReal
)

func (s Sort) String() string {
	switch s {
	case SInt:
		return "Int"
	case SBool:
		return "Bool"
	}
	return "Real"
}

// Term is a hash-consed SMT term with a conservative interval (numeric sorts).
type Term struct {
	ID   int
	Sort Sort
	Op   string // "c" const, "v" var, or SMT operator
	Args []*Term
	Rat  *big.Rat // numeric constants
	B    bool     // bool constants
	Name string   // variables
	Lo   *big.Rat // nil = -inf
	Hi   *big.Rat // nil = +inf
	IsIntReal bool // Real-sorted term known to be integral (to_real of Int)
}

type TermPool struct {
	tab  map[string]*Term
	next int
}

func NewPool() *TermPool { return &TermPool{tab: map[string]*Term{}} }

var tp = NewPool()

func (t *Term) IsConst() bool { return t.Op == "c" }

func (t *Term) ConstInt() (*big.Int, bool) {
	if t.Op == "c" && t.Sort != SBool && t.Rat.IsInt() {
		return new(big.Int).Set(t.Rat.Num()), true
	}
	return nil, false
}

func (t *Term) ConstInt64() (int64, bool) {
	b, ok := t.ConstInt()
	if !ok || !b.IsInt64() {
		return 0, false
	}
	return b.Int64(), true
}

func (t *Term) ConstBool() (bool, bool) {
	if t.Op == "c" && t.Sort == SBool {
		return t.B, true
	}
	return false, false
}

func mk(sort Sort, op string, args ...*Term) *Term {
	var sb strings.Builder
	sb.WriteString(op)
	sb.WriteByte(':')
	sb.WriteString(sort.String())
	for _, a := range args {
		fmt.Fprintf(&sb, " %d", a.ID)
	}
	k := sb.String()
	if t, ok := tp.tab[k]; ok {
		return t
	}
	tp.next++
	t := &Term{ID: tp.next, Sort: sort, Op: op, Args: args}
	tp.tab[k] = t
	return t
}

func ratKey(r *big.Rat) string { return r.RatString() }

func IntC(v int64) *Term { return RatC(SInt, new(big.Rat).SetInt64(v)) }
func BigC(v *big.Int) *Term { return RatC(SInt, new(big.Rat).SetInt(v)) }
func RealC(r *big.Rat) *Term { return RatC(SReal, r) }

func RatC(sort Sort, r *big.Rat) *Term {
	k := "c:" + sort.String() + ":" + ratKey(r)
	if t, ok := tp.tab[k]; ok {
		return t
	}
	tp.next++
	rr := new(big.Rat).Set(r)
	t := &Term{ID: tp.next, Sort: sort, Op: "c", Rat: rr, Lo: rr, Hi: rr}
	if sort == SReal && rr.IsInt() {
		t.IsIntReal = true
	}
	tp.tab[k] = t
	return t
}

var (
	True  = &Term{ID: -1, Sort: SBool, Op: "c", B: true}
	False = &Term{ID: -2, Sort: SBool, Op: "c", B: false}
)

func BoolC(b bool) *Term {
	if b {
		return True
	}
	return False
}

// Var creates (or returns) a named variable with an interval.
func Var(sort Sort, name string, lo, hi *big.Rat) *Term {
	k := "v:" + sort.String() + ":" + name
	if t, ok := tp.tab[k]; ok {
		return t
	}
	tp.next++
	t := &Term{ID: tp.next, Sort: sort, Op: "v", Name: name, Lo: lo, Hi: hi}
	tp.tab[k] = t
	return t
}

// ---- interval helpers ----

func rmin(a, b *big.Rat) *big.Rat {
	if a == nil || b == nil {
		return nil
	}
	if a.Cmp(b) <= 0 {
		return a
	}
	return b
}
func rmax(a, b *big.Rat) *big.Rat {
	if a == nil || b == nil {
		return nil
	}
	if a.Cmp(b) >= 0 {
		return a
	}
	return b
}
func radd(a, b *big.Rat) *big.Rat {
	if a == nil || b == nil {
		return nil
	}
	return new(big.Rat).Add(a, b)
}
func rsub(a, b *big.Rat) *big.Rat {
	if a == nil || b == nil {
		return nil
	}
	return new(big.Rat).Sub(a, b)
}
func rneg(a *big.Rat) *big.Rat {
	if a == nil {
		return nil
	}
	return new(big.Rat).Neg(a)
}

func (t *Term) bounded() bool { return t.Lo != nil && t.Hi != nil }

func ratFloor(r *big.Rat) *big.Rat {
	if r == nil {
		return nil
	}
	q := new(big.Int)
	m := new(big.Int)
	q.DivMod(r.Num(), r.Denom(), m) // Euclidean: floor for positive denom
	return new(big.Rat).SetInt(q)
}
func ratCeil(r *big.Rat) *big.Rat {
	if r == nil {
		return nil
	}
	f := ratFloor(r)
	if f.Cmp(r) == 0 {
		return f
	}
	return f.Add(f, big.NewRat(1, 1))
}

// point replaces a term whose interval is a single value by that constant.
func point(t *Term) *Term {
	if t.Sort != SBool && t.Op != "c" && t.Lo != nil && t.Hi != nil && t.Lo.Cmp(t.Hi) == 0 {
		return RatC(t.Sort, t.Lo)
	}
	return t
}

// ---- constructors with folding ----

func numSortOf(a, b *Term) Sort {
	if a.Sort != b.Sort {
		panic(fmt.Sprintf("sort mismatch %v %v: %s | %s", a.Sort, b.Sort, a, b))
	}
	return a.Sort
}

// ---- linear normal form for +,-,neg,*const ----

type linForm struct {
	atoms []*Term
	coefs []*big.Rat
	k     *big.Rat
}

func (l *linForm) add(t *Term, c *big.Rat) {
	if c.Sign() == 0 {
		return
	}
	for i, a := range l.atoms {
		if a == t {
			l.coefs[i] = new(big.Rat).Add(l.coefs[i], c)
			return
		}
	}
	l.atoms = append(l.atoms, t)
	l.coefs = append(l.coefs, new(big.Rat).Set(c))
}

func (l *linForm) accumulate(t *Term, c *big.Rat, depth int) {
	if t.Op == "c" {
		l.k.Add(l.k, new(big.Rat).Mul(t.Rat, c))
		return
	}
	if depth < 24 {
		switch t.Op {
		case "+":
			for _, a := range t.Args {
				l.accumulate(a, c, depth+1)
			}
			return
		case "-":
			l.accumulate(t.Args[0], c, depth+1)
			l.accumulate(t.Args[1], new(big.Rat).Neg(c), depth+1)
			return
		case "neg":
			l.accumulate(t.Args[0], new(big.Rat).Neg(c), depth+1)
			return
		case "*":
			if t.Args[0].IsConst() {
				l.accumulate(t.Args[1], new(big.Rat).Mul(c, t.Args[0].Rat), depth+1)
				return
			}
			if t.Args[1].IsConst() {
				l.accumulate(t.Args[0], new(big.Rat).Mul(c, t.Args[1].Rat), depth+1)
				return
			}
		}
	}
	l.add(t, c)
}

func rscale(c, lo, hi *big.Rat) (*big.Rat, *big.Rat) {
	var a, b *big.Rat
	if lo != nil {
		a = new(big.Rat).Mul(c, lo)
	}
	if hi != nil {
		b = new(big.Rat).Mul(c, hi)
	}
	if c.Sign() < 0 {
		return b, a
	}
	return a, b
}

// build constructs the canonical term of a linear form.
func (l *linForm) build(sort Sort) *Term {
	// drop zero coefficients, sort by atom id
	type pair struct {
		t *Term
		c *big.Rat
	}
	var ps []pair
	for i, a := range l.atoms {
		if l.coefs[i].Sign() != 0 {
			ps = append(ps, pair{a, l.coefs[i]})
		}
	}
	if len(ps) == 0 {
		return RatC(sort, l.k)
	}
	if sort == SReal && l.k.IsInt() {
		// integer combination of to_real(Int) atoms: keep it in Int and convert once (exact, and Floor() undoes it)
		allInt := true
		for _, p := range ps {
			if p.t.Op != "to_real" || !p.c.IsInt() {
				allInt = false
				break
			}
		}
		if allInt {
			li := &linForm{k: new(big.Rat).Set(l.k)}
			for _, p := range ps {
				li.accumulate(p.t.Args[0], p.c, 0)
			}
			return ToReal(li.build(SInt))
		}
	}
	for i := 1; i < len(ps); i++ {
		for j := i; j > 0 && ps[j-1].t.ID > ps[j].t.ID; j-- {
			ps[j-1], ps[j] = ps[j], ps[j-1]
		}
	}
	one := big.NewRat(1, 1)
	args := make([]*Term, 0, len(ps)+1)
	lo, hi := new(big.Rat).Set(l.k), new(big.Rat).Set(l.k)
	isInt := l.k.IsInt()
	for _, p := range ps {
		var m *Term
		if p.c.Cmp(one) == 0 {
			m = p.t
		} else {
			m = mk(sort, "*", RatC(sort, p.c), p.t)
			if m.Lo == nil && m.Hi == nil {
				m.Lo, m.Hi = rscale(p.c, p.t.Lo, p.t.Hi)
				m.IsIntReal = p.t.IsIntReal && p.c.IsInt()
			}
		}
		args = append(args, m)
		lo, hi = radd(lo, m.Lo), radd(hi, m.Hi)
		isInt = isInt && (m.IsIntReal || sort == SInt)
	}
	if len(args) == 1 && l.k.Sign() == 0 {
		return args[0]
	}
	if l.k.Sign() != 0 {
		args = append(args, RatC(sort, l.k))
	}
	t := mk(sort, "+", args...)
	if t.Lo == nil && t.Hi == nil {
		t.Lo, t.Hi = lo, hi
		t.IsIntReal = isInt && sort == SReal
	}
	return point(t)
}

func linCombine(sort Sort, a *Term, ca *big.Rat, b *Term, cb *big.Rat) *Term {
	l := &linForm{k: new(big.Rat)}
	l.accumulate(a, ca, 0)
	if b != nil {
		l.accumulate(b, cb, 0)
	}
	return l.build(sort)
}

var ratOne = big.NewRat(1, 1)
var ratMinusOne = big.NewRat(-1, 1)

func Add(a, b *Term) *Term {
	s := numSortOf(a, b)
	if a.IsConst() && b.IsConst() {
		return RatC(s, new(big.Rat).Add(a.Rat, b.Rat))
	}
	return linCombine(s, a, ratOne, b, ratOne)
}

func Neg(a *Term) *Term {
	if a.IsConst() {
		return RatC(a.Sort, new(big.Rat).Neg(a.Rat))
	}
	return linCombine(a.Sort, a, ratMinusOne, nil, nil)
}

func Sub(a, b *Term) *Term {
	s := numSortOf(a, b)
	if a.IsConst() && b.IsConst() {
		return RatC(s, new(big.Rat).Sub(a.Rat, b.Rat))
	}
	if a == b {
		return RatC(s, new(big.Rat))
	}
	// x - (x mod m)  ==>  m * (x div m)   (better intervals, same value)
	if b.Op == "mod" && b.Args[0] == a && b.Args[1].IsConst() {
		return Mul(b.Args[1], EDiv(a, b.Args[1]))
	}
	return linCombine(s, a, ratOne, b, ratMinusOne)
}

func mulBounds(a, b *Term) (lo, hi *big.Rat) {
	if !a.bounded() || !b.bounded() {
		// sign-based partial info
		if a.Lo != nil && a.Lo.Sign() >= 0 && b.Lo != nil && b.Lo.Sign() >= 0 {
			lo = new(big.Rat).Mul(a.Lo, b.Lo)
			if a.Hi != nil && b.Hi != nil {
				hi = new(big.Rat).Mul(a.Hi, b.Hi)
			}
			return
		}
		return nil, nil
	}
	c := []*big.Rat{
		new(big.Rat).Mul(a.Lo, b.Lo), new(big.Rat).Mul(a.Lo, b.Hi),
		new(big.Rat).Mul(a.Hi, b.Lo), new(big.Rat).Mul(a.Hi, b.Hi)}
	lo, hi = c[0], c[0]
	for _, x := range c[1:] {
		lo, hi = rmin(lo, x), rmax(hi, x)
	}
	return
}

func Mul(a, b *Term) *Term {
	s := numSortOf(a, b)
	if a.IsConst() && b.IsConst() {
		return RatC(s, new(big.Rat).Mul(a.Rat, b.Rat))
	}
	if b.IsConst() {
		a, b = b, a
	}
	if a.IsConst() {
		if a.Rat.Sign() == 0 {
			return a
		}
		if a.Rat.Cmp(big.NewRat(1, 1)) == 0 {
			return b
		}
		return linCombine(s, b, a.Rat, nil, nil)
	}
	t := mk(s, "*", a, b)
	if t.Lo == nil && t.Hi == nil {
		t.Lo, t.Hi = mulBounds(a, b)
		t.IsIntReal = a.IsIntReal && b.IsIntReal
	}
	return t
}

// RDiv is exact real division.
func RDiv(a, b *Term) *Term {
	if a.Sort != SReal || b.Sort != SReal {
		panic("RDiv sorts")
	}
	if b.IsConst() && b.Rat.Sign() != 0 {
		return Mul(RealC(new(big.Rat).Inv(b.Rat)), a)
	}
	t := mk(SReal, "/", a, b)
	return t
}

// EDiv is SMT-LIB Euclidean div (floor for positive divisor).
func EDiv(a, b *Term) *Term {
	if a.IsConst() && b.IsConst() && b.Rat.Sign() != 0 {
		q, m := new(big.Int), new(big.Int)
		q.DivMod(a.Rat.Num(), b.Rat.Num(), m)
		return BigC(q)
	}
	if b.IsConst() && b.Rat.Cmp(big.NewRat(1, 1)) == 0 {
		return a
	}
	t := mk(SInt, "div", a, b)
	if t.Lo == nil && t.Hi == nil {
		if b.IsConst() && b.Rat.Sign() > 0 {
			if a.Lo != nil {
				t.Lo = ratFloor(new(big.Rat).Quo(a.Lo, b.Rat))
			}
			if a.Hi != nil {
				t.Hi = ratFloor(new(big.Rat).Quo(a.Hi, b.Rat))
			}
		} else if a.Lo != nil && a.Lo.Sign() >= 0 && b.Lo != nil && b.Lo.Sign() > 0 {
			t.Lo = new(big.Rat)
			if a.Hi != nil {
				t.Hi = ratFloor(new(big.Rat).Quo(a.Hi, b.Lo))
			}
		}
	}
	return point(t)
}

// EMod is SMT-LIB mod (result in [0,|b|)).
func EMod(a, b *Term) *Term {
	if a.IsConst() && b.IsConst() && b.Rat.Sign() != 0 {
		q, m := new(big.Int), new(big.Int)
		q.DivMod(a.Rat.Num(), b.Rat.Num(), m)
		return BigC(m)
	}
	if b.IsConst() && b.Rat.Sign() > 0 && a.Lo != nil && a.Hi != nil && a.Lo.Sign() >= 0 && a.Hi.Cmp(b.Rat) < 0 {
		return a
	}
	t := mk(SInt, "mod", a, b)
	if t.Lo == nil && t.Hi == nil {
		t.Lo = new(big.Rat)
		if b.IsConst() && b.Rat.Sign() != 0 {
			t.Hi = new(big.Rat).Sub(new(big.Rat).Abs(b.Rat), big.NewRat(1, 1))
			if a.Hi != nil && a.Lo != nil && a.Lo.Sign() >= 0 {
				t.Hi = rmin(t.Hi, a.Hi)
			}
		} else if b.bounded() {
			m := rmax(new(big.Rat).Abs(b.Lo), new(big.Rat).Abs(b.Hi))
			t.Hi = new(big.Rat).Sub(m, big.NewRat(1, 1))
		}
	}
	return t
}

func Ite(c, a, b *Term) *Term {
	if cb, ok := c.ConstBool(); ok {
		if cb {
			return a
		}
		return b
	}
	if a == b {
		return a
	}
	if a.Sort != b.Sort {
		panic(fmt.Sprintf("ite sort mismatch: %s | %s", a, b))
	}
	if a.Sort == SBool {
		if ab, ok := a.ConstBool(); ok {
			if ab {
				return Or(c, b)
			}
			return And(Not(c), b)
		}
		if bb, ok := b.ConstBool(); ok {
			if bb {
				return Or(Not(c), a)
			}
			return And(c, a)
		}
	}
	if a.Sort == SReal {
		// ite over integer-valued reals: keep the integer inside a single to_real
		ai, aok := intOfReal(a)
		bi, bok := intOfReal(b)
		if aok && bok {
			return ToReal(Ite(c, ai, bi))
		}
	}
	t := mk(a.Sort, "ite", c, a, b)
	if a.Sort != SBool && t.Lo == nil && t.Hi == nil {
		t.Lo, t.Hi = rmin(a.Lo, b.Lo), rmax(a.Hi, b.Hi)
		t.IsIntReal = a.IsIntReal && b.IsIntReal
	}
	return point(t)
}

// intOfReal returns the Int term i with a == to_real(i), if a has that shape.
func intOfReal(a *Term) (*Term, bool) {
	if a.Op == "to_real" {
		return a.Args[0], true
	}
	if a.Op == "c" && a.Sort == SReal && a.Rat.IsInt() {
		return RatC(SInt, a.Rat), true
	}
	return nil, false
}

func Not(a *Term) *Term {
	if b, ok := a.ConstBool(); ok {
		return BoolC(!b)
	}
	if a.Op == "not" {
		return a.Args[0]
	}
	return mk(SBool, "not", a)
}

func And(a, b *Term) *Term {
	if x, ok := a.ConstBool(); ok {
		if x {
			return b
		}
		return False
	}
	if x, ok := b.ConstBool(); ok {
		if x {
			return a
		}
		return False
	}
	if a == b {
		return a
	}
	return mk(SBool, "and", a, b)
}

func Or(a, b *Term) *Term {
	if x, ok := a.ConstBool(); ok {
		if x {
			return True
		}
		return b
	}
	if x, ok := b.ConstBool(); ok {
		if x {
			return True
		}
		return a
	}
	if a == b {
		return a
	}
	return mk(SBool, "or", a, b)
}

func AndN(ts ...*Term) *Term {
	r := True
	for _, t := range ts {
		r = And(r, t)
	}
	return r
}

func Implies(a, b *Term) *Term { return Or(Not(a), b) }

func BoolEq(a, b *Term) *Term {
	if x, ok := a.ConstBool(); ok {
		if x {
			return b
		}
		return Not(b)
	}
	if x, ok := b.ConstBool(); ok {
		if x {
			return a
		}
		return Not(a)
	}
	if a == b {
		return True
	}
	return mk(SBool, "=", a, b)
}

func Eq(a, b *Term) *Term {
	if a.Sort == SBool {
		return BoolEq(a, b)
	}
	numSortOf(a, b)
	if a == b {
		return True
	}
	if a.IsConst() && b.IsConst() {
		return BoolC(a.Rat.Cmp(b.Rat) == 0)
	}
	if (a.Hi != nil && b.Lo != nil && a.Hi.Cmp(b.Lo) < 0) || (b.Hi != nil && a.Lo != nil && b.Hi.Cmp(a.Lo) < 0) {
		return False
	}
	if a.IsConst() {
		a, b = b, a
	}
	return mk(SBool, "=", a, b)
}

func Le(a, b *Term) *Term {
	numSortOf(a, b)
	if a == b {
		return True
	}
	if a.Hi != nil && b.Lo != nil && a.Hi.Cmp(b.Lo) <= 0 {
		return True
	}
	if a.Lo != nil && b.Hi != nil && a.Lo.Cmp(b.Hi) > 0 {
		return False
	}
	return mk(SBool, "<=", a, b)
}

func Lt(a, b *Term) *Term {
	numSortOf(a, b)
	if a == b {
		return False
	}
	if a.Hi != nil && b.Lo != nil && a.Hi.Cmp(b.Lo) < 0 {
		return True
	}
	if a.Lo != nil && b.Hi != nil && a.Lo.Cmp(b.Hi) >= 0 {
		return False
	}
	return mk(SBool, "<", a, b)
}

func Ge(a, b *Term) *Term { return Le(b, a) }
func Gt(a, b *Term) *Term { return Lt(b, a) }
func Ne(a, b *Term) *Term { return Not(Eq(a, b)) }

func ToReal(a *Term) *Term {
	if a.Sort == SReal {
		return a
	}
	if a.IsConst() {
		return RealC(a.Rat)
	}
	t := mk(SReal, "to_real", a)
	if t.Lo == nil && t.Hi == nil {
		t.Lo, t.Hi = a.Lo, a.Hi
		t.IsIntReal = true
	}
	return t
}

// Floor is SMT to_int (floor).
func Floor(a *Term) *Term {
	if a.Sort == SInt {
		return a
	}
	if a.IsConst() {
		return RatC(SInt, ratFloor(a.Rat))
	}
	if a.Op == "to_real" {
		return a.Args[0]
	}
	t := mk(SInt, "to_int", a)
	if t.Lo == nil && t.Hi == nil {
		t.Lo, t.Hi = ratFloor(a.Lo), ratFloor(a.Hi)
	}
	return point(t)
}

// Raw is an SMT-LIB boolean expression given as text over in_<name> variables.
func Raw(text string) *Term {
	k := "raw:" + text
	if t, ok := tp.tab[k]; ok {
		return t
	}
	tp.next++
	t := &Term{ID: tp.next, Sort: SBool, Op: "raw", Name: text}
	tp.tab[k] = t
	return t
}

// LookupVar finds a declared variable term by SMT name.
func LookupVar(name string) *Term {
	for _, s := range []Sort{SInt, SBool, SReal} {
		if t, ok := tp.tab["v:"+s.String()+":"+strings.TrimPrefix(name, "")]; ok && t.Name == name {
			return t
		}
	}
	return nil
}

// UF application (used for RN).
func App(sort Sort, fn string, args ...*Term) *Term {
	return mk(sort, "@"+fn, args...)
}

// ---- printing ----

func ratSMT(r *big.Rat, sort Sort) string {
	neg := r.Sign() < 0
	abs := new(big.Rat).Abs(r)
	var s string
	if sort == SInt {
		s = abs.Num().String()
	} else if abs.IsInt() {
		s = abs.Num().String() + ".0"
	} else {
		s = "(/ " + abs.Num().String() + ".0 " + abs.Denom().String() + ".0)"
	}
	if neg {
		return "(- " + s + ")"
	}
	return s
}

// head returns the SMT head for printing an operator node.
func (t *Term) smtOp() string {
	switch t.Op {
	case "neg":
		return "-"
	}
	if strings.HasPrefix(t.Op, "@") {
		return t.Op[1:]
	}
	return t.Op
}

func (t *Term) String() string {
	switch t.Op {
	case "c":
		if t.Sort == SBool {
			if t.B {
				return "true"
			}
			return "false"
		}
		return ratSMT(t.Rat, t.Sort)
	case "v":
		return t.Name
	case "raw":
		return t.Name
	}
	var sb strings.Builder
	sb.WriteString("(" + t.smtOp())
	for _, a := range t.Args {
		sb.WriteByte(' ')
		s := a.String()
		if len(s) > 400 {
			s = fmt.Sprintf("t%d", a.ID)
		}
		sb.WriteString(s)
	}
	sb.WriteString(")")
	return sb.String()
}
