package symex

import (
	"fmt"
	"go/token"
	"go/types"
	"math/big"
	"os"
	"sort"
	"strings"
	"time"

	"golang.org/x/tools/go/ssa"
)

// ---------------------------------------------------------------------------
// configuration / results

type Config struct {
	Unwind     int // max visits of one loop header per frame activation
	MaxPaths   int
	MaxSteps   int // per path
	Deadline   time.Time
	PanicMode  string              // "report": runtime panics are obligations; "assume": assumed absent (paths cut)
	Fixed      map[string]*big.Rat // concrete mode: values for inputs
	Trace      bool
	Stubs      map[string]string // extra function stubs: full name -> kind ("noop", "poison")
	ExtraAssume string
	Guards       []Guard
	MaxAlloc     int
	AltModels    int // alternative models per RN-dependent violated obligation
	NoIfConv     bool
	NoWrapQuery  bool
	SampleModels int                  // number of completed-path input models to record
	Exclude      map[string][]Exclusion // obligation id (or prefix ending in *) -> known input classes
}

// Guard declares that fields of a struct type may only be accessed while a mutex field of the same object is held.
type Guard struct {
	Type   string   // struct type name (unqualified)
	Fields []string // guarded field names
	Mutex  string   // mutex field name
	Exempt []string // function names (unqualified) that may access without the lock (constructors)
}

// Exclusion is a known-finding input class, an SMT-LIB predicate over in_<name> variables.
type Exclusion struct {
	Name string `json:"name"`
	Pred string `json:"pred"`
}

type Candidate struct {
	ID     string            `json:"id"`
	Kind   string            `json:"kind"` // "assert" | "panic"
	Site   string            `json:"site"`
	Model  map[string]string `json:"model"`
	PCSize int               `json:"pc_size"`
	Msg    string            `json:"msg,omitempty"`
	Tag    string            `json:"tag,omitempty"` // "known:<name>" when inside a recorded input class
}

type OblStat struct {
	Proved   int `json:"proved"`   // solver said unsat for the negation
	Trivial  int `json:"trivial"`  // folded to true by the term layer
	Violated int `json:"violated"` // sat candidates
	Unknown  int `json:"unknown"`
	Reached  int `json:"reached"`
}

type Result struct {
	Paths        int                 `json:"paths"`
	PathsCut     int                 `json:"paths_cut"`
	PathsPanic   int                 `json:"paths_panicked"`
	Steps        int                 `json:"steps"`
	BranchQ      int                 `json:"branch_queries"`
	OblQ         int                 `json:"obligation_queries"`
	Obligations  map[string]*OblStat `json:"obligations"`
	Candidates   []Candidate         `json:"candidates"`
	Unwinds      []string            `json:"unwinds"`
	Unsupported  []string            `json:"unsupported"`
	Reach        map[string]int      `json:"reach"`
	Functions    []string            `json:"functions_encoded"`
	StubsUsed    []string            `json:"stubs_used"`
	Inputs       map[string][2]string `json:"inputs"`
	Assumes      int                 `json:"assumes"`
	Observes     map[string][]string `json:"observes,omitempty"`
	SolverS      float64             `json:"solver_s"`
	SolverErrors int                 `json:"solver_errors"`
	Aborted      string              `json:"aborted,omitempty"`
	ApproxPaths  int                 `json:"approx_paths"`
	RNUsed       bool                `json:"rn_used"`
	IfConverted  int                 `json:"if_converted"`
	WrapQueries  int                 `json:"wrap_queries"`
	WrapElided   int                 `json:"wrap_elided"`
	Samples      []map[string]interface{} `json:"samples,omitempty"`
	PathModels   []map[string]string `json:"path_models,omitempty"`
	GuardAccessors []string          `json:"guard_accessors,omitempty"`
	GuardChecks  int                 `json:"guard_checks"`
	Blocked      []string            `json:"blocked,omitempty"`
}

// ---------------------------------------------------------------------------
// state

type deferred struct {
	fn   FuncV
	args []Value
	call *ssa.CallCommon
}

type Frame struct {
	Fn      *ssa.Function
	Info    *fnInfo
	Block   *ssa.BasicBlock
	Prev    *ssa.BasicBlock
	PC      int
	Regs    []Value
	Env     []Value
	Defers  []deferred
	Visits  map[*ssa.BasicBlock]int
	RetReg  int  // register index in caller for result; -1 none
	Discard bool // result ignored (deferred call)
	InitMode bool
}

type fnInfo struct {
	index map[ssa.Value]int
	n     int
	loopHeads map[*ssa.BasicBlock]bool
}

type State struct {
	Frames  []*Frame
	Heap    []Value
	Globals map[*ssa.Global]int
	PkgInit map[*ssa.Package]bool
	PC      []*Term
	Inputs  []*Term
	Steps   int
	Approx  bool
	Concr   map[int]int64 // term id -> concretized value (after fork on value)
	NextAtom int
	Clock   *Term
	ClockN  int
	Mutex   map[int]bool // ghost held bits by object id
	LockEp  map[int]int  // hold episode counter per mutex (incremented by every Lock)
	RLocked map[int]bool // mutexes currently held in read mode (RLock): they do not protect writes
	MapLook map[int]map[[2]int]bool // guarded map object -> (mutex, episode) pairs under which it was looked up
	Log     []string
	Spec    bool // speculative (if-conversion) execution: anything needing the solver aborts
	Acc         map[accKey][]accRec // shared-access log (lockset.go); copy-on-write
	Thread      int // current logical thread (vThread), 0 = none
	ThreadHeap0 int // heap size when the current thread started (younger objects are its own allocations)
	SelN    int         // number of select statements executed on this path
	WG      map[int]int // ghost sync.WaitGroup counters by object key
	Builders map[int]StrV // content of strings.Builder objects by object key (copy-on-write)
}

func (st *State) clone() *State {
	n := &State{
		Heap:    append([]Value(nil), st.Heap...),
		PC:      st.PC[:len(st.PC):len(st.PC)],
		Inputs:  st.Inputs[:len(st.Inputs):len(st.Inputs)],
		Steps:   st.Steps,
		Approx:  st.Approx,
		NextAtom: st.NextAtom,
		Clock:   st.Clock,
		ClockN:  st.ClockN,
		Log:     st.Log[:len(st.Log):len(st.Log)],
		SelN:    st.SelN,
		Thread:  st.Thread, ThreadHeap0: st.ThreadHeap0, Acc: st.Acc,
	}
	n.Builders = st.Builders
	if len(st.WG) > 0 {
		n.WG = make(map[int]int, len(st.WG))
		for k, v := range st.WG {
			n.WG[k] = v
		}
	}
	n.Globals = make(map[*ssa.Global]int, len(st.Globals))
	for k, v := range st.Globals {
		n.Globals[k] = v
	}
	n.PkgInit = make(map[*ssa.Package]bool, len(st.PkgInit))
	for k, v := range st.PkgInit {
		n.PkgInit[k] = v
	}
	n.Concr = make(map[int]int64, len(st.Concr))
	for k, v := range st.Concr {
		n.Concr[k] = v
	}
	n.Mutex = make(map[int]bool, len(st.Mutex))
	for k, v := range st.Mutex {
		n.Mutex[k] = v
	}
	if st.RLocked != nil {
		n.RLocked = make(map[int]bool, len(st.RLocked))
		for k, v := range st.RLocked {
			n.RLocked[k] = v
		}
	}
	if st.LockEp != nil {
		n.LockEp = make(map[int]int, len(st.LockEp))
		for k, v := range st.LockEp {
			n.LockEp[k] = v
		}
	}
	if st.MapLook != nil {
		n.MapLook = make(map[int]map[[2]int]bool, len(st.MapLook))
		for k, v := range st.MapLook {
			m := make(map[[2]int]bool, len(v))
			for kk := range v {
				m[kk] = true
			}
			n.MapLook[k] = m
		}
	}
	n.Frames = make([]*Frame, len(st.Frames))
	for i, f := range st.Frames {
		nf := *f
		nf.Regs = append([]Value(nil), f.Regs...)
		nf.Defers = append([]deferred(nil), f.Defers...)
		nf.Visits = make(map[*ssa.BasicBlock]int, len(f.Visits))
		for k, v := range f.Visits {
			nf.Visits[k] = v
		}
		n.Frames[i] = &nf
	}
	return n
}

func (st *State) top() *Frame { return st.Frames[len(st.Frames)-1] }

func (st *State) alloc(v Value) int {
	st.Heap = append(st.Heap, v)
	return len(st.Heap) - 1
}

// ---------------------------------------------------------------------------
// interpreter

type Interp struct {
	Prog  *ssa.Program
	Cfg   Config
	Sol   *Solver
	Res   *Result
	infos map[*ssa.Function]*fnInfo
	fnSeen map[string]bool
	stubSeen map[string]bool
	unsupSeen map[string]bool
	unwindSeen map[string]bool
	blockedSeen map[string]bool
	candSeen map[string]int
	rnUsed   bool // some float operation was abstracted by the uninterpreted rounding function
	built map[*ssa.Package]bool
	strIDs map[string]int64
	aborted bool
	entryDepth int
	wrapKnown map[wrapKey]bool
	freshN    int
	pdoms map[*ssa.Function]*pdomInfo
	noConv map[*ssa.If]int
}

func NewInterp(prog *ssa.Program, sol *Solver, cfg Config) *Interp {
	return &Interp{Prog: prog, Cfg: cfg, Sol: sol,
		Res: &Result{Obligations: map[string]*OblStat{}, Reach: map[string]int{}, Inputs: map[string][2]string{}, Observes: map[string][]string{}},
		infos: map[*ssa.Function]*fnInfo{}, fnSeen: map[string]bool{}, stubSeen: map[string]bool{},
		unsupSeen: map[string]bool{}, unwindSeen: map[string]bool{}, blockedSeen: map[string]bool{}, candSeen: map[string]int{},
		built: map[*ssa.Package]bool{}, strIDs: map[string]int64{}, pdoms: map[*ssa.Function]*pdomInfo{}, noConv: map[*ssa.If]int{}}
}

type wrapKey struct{ id, pc int }
type pathEnd struct{ why string }
type forkReq struct {
	term  *Term
	cands []int64
}

func (in *Interp) info(fn *ssa.Function) *fnInfo {
	if fi, ok := in.infos[fn]; ok {
		return fi
	}
	fi := &fnInfo{index: map[ssa.Value]int{}, loopHeads: map[*ssa.BasicBlock]bool{}}
	for _, p := range fn.Params {
		fi.index[p] = fi.n
		fi.n++
	}
	for _, b := range fn.Blocks {
		for _, ins := range b.Instrs {
			if v, ok := ins.(ssa.Value); ok {
				fi.index[v] = fi.n
				fi.n++
			}
		}
		// loop header: has a predecessor with index >= own index (back edge in RPO-ish numbering)
		for _, p := range b.Preds {
			if p.Index >= b.Index {
				fi.loopHeads[b] = true
			}
		}
	}
	in.infos[fn] = fi
	return fi
}

func (in *Interp) ensureBuilt(fn *ssa.Function) {
	if len(fn.Blocks) > 0 {
		return
	}
	pkg := fn.Pkg
	if pkg == nil && fn.Origin() != nil {
		pkg = fn.Origin().Pkg
	}
	if pkg != nil && !in.built[pkg] {
		in.built[pkg] = true
		pkg.Build()
	}
}

func (in *Interp) newFrame(fn *ssa.Function, args []Value, env []Value) *Frame {
	in.ensureBuilt(fn)
	if len(fn.Blocks) == 0 {
		panic(unsupported("call of function without body: " + fn.String()))
	}
	fi := in.info(fn)
	fr := &Frame{Fn: fn, Info: fi, Block: fn.Blocks[0], Regs: make([]Value, fi.n), Env: env, Visits: map[*ssa.BasicBlock]int{}, RetReg: -1}
	if len(args) != len(fn.Params) {
		panic(unsupported(fmt.Sprintf("arg count mismatch calling %s: %d vs %d", fn, len(args), len(fn.Params))))
	}
	for i, p := range fn.Params {
		fr.Regs[fi.index[p]] = args[i]
	}
	name := fn.String()
	if !in.fnSeen[name] {
		in.fnSeen[name] = true
	}
	return fr
}

// Run explores all paths of entry (a niladic harness function).
func (in *Interp) Run(entry *ssa.Function) *Result {
	st := &State{Globals: map[*ssa.Global]int{}, PkgInit: map[*ssa.Package]bool{}, Concr: map[int]int64{}, Mutex: map[int]bool{}}
	func() {
		defer func() {
			if r := recover(); r != nil {
				if u, ok := r.(unsupportedErr); ok {
					in.noteUnsupported(u.msg, nil)
					return
				}
				panic(r)
			}
		}()
		st.Frames = []*Frame{in.newFrame(entry, nil, nil)}
		in.run(st)
	}()
	for f := range in.fnSeen {
		in.Res.Functions = append(in.Res.Functions, f)
	}
	sort.Strings(in.Res.Functions)
	for f := range in.stubSeen {
		in.Res.StubsUsed = append(in.Res.StubsUsed, f)
	}
	sort.Strings(in.Res.StubsUsed)
	in.Res.SolverS = in.Sol.Time.Seconds()
	in.Res.SolverErrors = in.Sol.Errors
	in.Res.RNUsed = in.rnUsed
	return in.Res
}

func (in *Interp) noteUnsupported(msg string, st *State) {
	if st != nil && len(st.Frames) > 0 {
		fr := st.top()
		if fr.PC < len(fr.Block.Instrs) {
			msg += " @ " + in.posOf(fr.Block.Instrs[fr.PC], fr)
		}
	}
	if !in.unsupSeen[msg] {
		in.unsupSeen[msg] = true
		in.Res.Unsupported = append(in.Res.Unsupported, msg)
	}
}

func (in *Interp) posOf(ins ssa.Instruction, fr *Frame) string {
	p := ins.Pos()
	if !p.IsValid() {
		// search nearby
		for _, o := range fr.Block.Instrs {
			if o.Pos().IsValid() {
				p = o.Pos()
				break
			}
		}
	}
	if !p.IsValid() {
		return fr.Fn.String()
	}
	pos := in.Prog.Fset.Position(p)
	f := pos.Filename
	if i := strings.LastIndex(f, "/"); i >= 0 {
		f = f[i+1:]
	}
	return fmt.Sprintf("%s:%d", f, pos.Line)
}

func (in *Interp) checkBudget() {
	if in.aborted {
		panic(pathEnd{"aborted"})
	}
	if !in.Cfg.Deadline.IsZero() && time.Now().After(in.Cfg.Deadline) {
		in.aborted = true
		in.Res.Aborted = "deadline"
		panic(pathEnd{"aborted"})
	}
	if in.Cfg.MaxPaths > 0 && in.Res.Paths+in.Res.PathsCut+in.Res.PathsPanic >= in.Cfg.MaxPaths {
		in.aborted = true
		in.Res.Aborted = "max paths"
		panic(pathEnd{"aborted"})
	}
}

// run executes st until its path ends, forking recursively.
func (in *Interp) run(st *State) {
	if in.aborted {
		return
	}
	for {
		cont := in.runSegment(st)
		if cont == nil {
			return
		}
		// fork request: cont holds the alternatives to explore
		alts := cont
		for i, alt := range alts {
			var s2 *State
			if i == len(alts)-1 {
				s2 = st
			} else {
				s2 = st.clone()
			}
			in.Sol.Push()
			in.Sol.Assert(alt.cond)
			s2.PC = append(s2.PC, alt.cond)
			if alt.apply != nil {
				alt.apply(s2)
			}
			in.run(s2)
			in.Sol.Pop()
		}
		return
	}
}

type alternative struct {
	cond  *Term
	apply func(*State)
}

// runSegment steps st until the path ends (returns nil) or a fork is needed (returns alternatives).
func (in *Interp) runSegment(st *State) (alts []alternative) {
	defer func() {
		if r := recover(); r != nil {
			switch e := r.(type) {
			case pathEnd:
				switch e.why {
				case "done":
					in.Res.Paths++
					if len(in.Res.PathModels) < in.Cfg.SampleModels && in.Cfg.Fixed == nil {
						if r, m := in.Sol.ModelWith(st.Inputs); r == Sat && m != nil {
							in.Res.PathModels = append(in.Res.PathModels, m)
						}
					}
					if st.Approx {
						in.Res.ApproxPaths++
					}
				case "cut", "infeasible":
					in.Res.PathsCut++
				case "panic":
					in.Res.PathsPanic++
				case "aborted":
				default:
					in.Res.PathsCut++
				}
				alts = nil
			case unsupportedErr:
				in.noteUnsupported(e.msg, st)
				in.Res.PathsCut++
				alts = nil
			case forkReq:
				alts = in.altsForValue(st, e)
			case []alternative:
				alts = e
			default:
				if len(st.Frames) > 0 {
					fr := st.top()
					if fr.PC < len(fr.Block.Instrs) {
						fmt.Fprintf(os.Stderr, "internal error at %s in %s: %v\n", in.posOf(fr.Block.Instrs[fr.PC], fr), fr.Fn, fr.Block.Instrs[fr.PC])
					}
				}
				panic(r)
			}
		}
	}()
	for {
		if len(st.Frames) == 0 {
			panic(pathEnd{"done"})
		}
		st.Steps++
		in.Res.Steps++
		if in.Cfg.MaxSteps > 0 && st.Steps > in.Cfg.MaxSteps {
			in.noteUnsupported("step budget exceeded", st)
			panic(pathEnd{"cut"})
		}
		if in.Res.Steps&255 == 0 {
			in.checkBudget()
		}
		fr := st.top()
		ins := fr.Block.Instrs[fr.PC]
		if in.Cfg.Trace {
			fmt.Fprintf(os.Stderr, "%*s%s: %v\n", len(st.Frames), "", fr.Fn.Name(), ins)
		}
		in.step(st, fr, ins)
	}
}

func (in *Interp) altsForValue(st *State, fq forkReq) []alternative {
	var alts []alternative
	for _, c := range fq.cands {
		cond := Eq(fq.term, IntC(c))
		if b, ok := cond.ConstBool(); ok && !b {
			continue
		}
		in.Res.BranchQ++
		if r := in.Sol.CheckWith(cond); r == Unsat {
			continue
		}
		cv := c
		t := fq.term
		alts = append(alts, alternative{cond: cond, apply: func(s *State) { s.Concr[t.ID] = cv }})
	}
	if len(alts) == 0 {
		in.Res.PathsCut++
		return nil
	}
	return alts
}

// concretize returns a concrete value for t, forking over cands if needed.
func (in *Interp) concretize(st *State, t *Term, lo, hi int64) int64 {
	if v, ok := t.ConstInt64(); ok {
		return v
	}
	if st.Spec {
		panic(specAbort{"concretize"})
	}
	if v, ok := st.Concr[t.ID]; ok {
		return v
	}
	if t.Lo != nil && t.Lo.IsInt() && t.Lo.Num().IsInt64() && t.Lo.Num().Int64() > lo {
		lo = t.Lo.Num().Int64()
	}
	if t.Hi != nil && t.Hi.IsInt() && t.Hi.Num().IsInt64() && t.Hi.Num().Int64() < hi {
		hi = t.Hi.Num().Int64()
	}
	if hi-lo > 2048 {
		// static range too wide: enumerate the feasible values with the solver (at most 64)
		cands, ok := in.enumerateValues(st, t, 64)
		if !ok {
			panic(unsupported(fmt.Sprintf("concretization range too large [%d,%d] for %s", lo, hi, clip(t.String(), 200))))
		}
		panic(forkReq{term: t, cands: cands})
	}
	var cands []int64
	for c := lo; c <= hi; c++ {
		cands = append(cands, c)
	}
	panic(forkReq{term: t, cands: cands})
}

// enumerateValues lists all values t can take under the current path condition (up to max of them).
func (in *Interp) enumerateValues(st *State, t *Term, max int) ([]int64, bool) {
	probe := Var(SInt, "enum_probe", nil, nil)
	in.Sol.Push()
	defer in.Sol.Pop()
	in.Sol.Assert(mk(SBool, "=", probe, t))
	var vals []int64
	for len(vals) <= max {
		in.Res.BranchQ++
		r, m := in.Sol.ModelWith([]*Term{probe})
		if r == Unsat {
			return vals, len(vals) > 0
		}
		if r != Sat || m == nil {
			return nil, false
		}
		rv, ok := new(big.Rat).SetString(m["enum_probe"])
		if !ok || !rv.IsInt() || !rv.Num().IsInt64() {
			return nil, false
		}
		v := rv.Num().Int64()
		vals = append(vals, v)
		in.Sol.Assert(mk(SBool, "not", mk(SBool, "=", probe, IntC(v))))
	}
	return nil, false
}

// assume adds cond to the path condition (current solver level).
func (in *Interp) assume(st *State, cond *Term) {
	if b, ok := cond.ConstBool(); ok {
		if !b {
			panic(pathEnd{"infeasible"})
		}
		return
	}
	if st.Spec {
		panic(specAbort{"assume"})
	}
	in.Sol.Assert(cond)
	st.PC = append(st.PC, cond)
}

func (in *Interp) stat(id string) *OblStat {
	s := in.Res.Obligations[id]
	if s == nil {
		s = &OblStat{}
		in.Res.Obligations[id] = s
	}
	return s
}

// obligation checks that cond holds on every continuation of the current path.
func (in *Interp) obligation(st *State, id, kind, site string, cond *Term, msg string) {
	if st.Spec {
		panic(specAbort{"obligation"})
	}
	s := in.stat(id)
	s.Reached++
	if b, ok := cond.ConstBool(); ok && b {
		s.Trivial++
		return
	}
	if excl := in.exclusionsFor(id); len(excl) > 0 && in.Cfg.Fixed == nil {
		in.obligationExcl(st, s, id, kind, site, cond, msg, excl)
		return
	}
	in.Res.OblQ++
	var r SatRes
	var model map[string]string
	if b, ok := cond.ConstBool(); ok && !b {
		r, model = in.Sol.ModelWith(st.Inputs)
		if r == Unsat {
			panic(pathEnd{"infeasible"})
		}
	} else {
		r, model = in.Sol.ModelWith(st.Inputs, Not(cond))
	}
	switch r {
	case Unsat:
		s.Proved++
		if len(in.Res.Samples) < 6 {
			in.Res.Samples = append(in.Res.Samples, map[string]interface{}{"obligation": id, "site": site, "verdict": "unsat(negation)", "pc_conjuncts": len(st.PC), "goal": clip(cond.String(), 300)})
		}
		return
	case Unknown:
		s.Unknown++
	case Sat:
		s.Violated++
		key := id + "@" + site
		in.candSeen[key]++
		if in.candSeen[key] <= 3 {
			in.Res.Candidates = append(in.Res.Candidates, Candidate{ID: id, Kind: kind, Site: site, Model: model, PCSize: len(st.PC), Msg: msg})
			// Rounded float arithmetic is over-approximated (uninterpreted RN within error bounds), so a model may
			// rely on a rounding that IEEE-754 does not produce for these inputs. Offer a few more models of the
			// same negated obligation (different inputs); the driver reports whichever reproduces natively.
			if in.rnUsed && in.Cfg.Fixed == nil {
				extra := []*Term{Not(cond)}
				if b, ok := cond.ConstBool(); ok && !b {
					extra = nil
				}
				// spread the alternatives over the input space: pseudo-random residues and growing magnitudes
				primes := []int64{1009, 10007, 100003, 997, 9973, 99991, 1013, 10009, 100019, 991, 9967, 99989}
				altStart := time.Now()
				for k := 0; k < in.Cfg.AltModels && time.Since(altStart) < 90*time.Second; k++ {
					cons := append([]*Term{}, extra...)
					// every second alternative perturbs a single input only (the others stay free), so that an input
					// whose feasible range is narrow on this path does not make the whole constraint set unsatisfiable
					single := -1
					if k%2 == 1 && len(st.Inputs) > 0 {
						single = (k / 2) % len(st.Inputs)
					}
					for vi, v := range st.Inputs {
						if v.Sort != SInt || v.Lo == nil || v.Hi == nil {
							continue
						}
						if single >= 0 && vi != single {
							continue
						}
						span := new(big.Rat).Sub(v.Hi, v.Lo)
						if span.Cmp(big.NewRat(4096, 1)) < 0 {
							continue
						}
						if single >= 0 {
							p := primes[(k/2/len(st.Inputs))%len(primes)] % 997
							if p < 7 {
								p = 7
							}
							res := (int64(k)*7919 + 13) % p
							cons = append(cons, Eq(EMod(v, IntC(p)), IntC(res)))
							continue
						}
						p := primes[(k+vi)%len(primes)]
						res := (int64(k)*7919 + int64(vi)*104729 + int64(k/len(primes))*611953 + 13) % p
						cons = append(cons, Eq(EMod(v, IntC(p)), IntC(res)))
						if k%3 != 0 {
							lb := new(big.Int).Lsh(big.NewInt(1), uint(3*(k%12)))
							if new(big.Rat).SetInt(lb).Cmp(v.Hi) < 0 {
								cons = append(cons, Ge(v, BigC(lb)))
							}
						}
					}
					if len(cons) == len(extra) {
						if single >= 0 {
							continue
						}
						break
					}
					in.Res.OblQ++
					var r2 SatRes
					var m2 map[string]string
					in.Sol.Quick(1500, func() { r2, m2 = in.Sol.ModelWith(st.Inputs, cons...) })
					if r2 == Unknown {
						if single >= 0 {
							continue
						}
						break // not worth more time: these candidates are optional
					}
					if r2 != Sat {
						continue
					}
					in.Res.Candidates = append(in.Res.Candidates, Candidate{ID: id, Kind: kind, Site: site, Model: m2, PCSize: len(st.PC), Msg: msg, Tag: "alt"})
				}
			}
		}
	}
	// continue under the assumption that the obligation holds (if possible)
	if b, ok := cond.ConstBool(); ok && !b {
		if kind == "panic" {
			panic(pathEnd{"panic"})
		}
		return
	}
	if kind == "panic" || r == Sat {
		in.Res.BranchQ++
		if in.Sol.CheckWith(cond) == Unsat {
			if kind == "panic" {
				panic(pathEnd{"panic"})
			}
			panic(pathEnd{"cut"})
		}
		in.assume(st, cond)
	}
}

func (in *Interp) exclusionsFor(id string) []Exclusion {
	if in.Cfg.Exclude == nil {
		return nil
	}
	if e, ok := in.Cfg.Exclude[id]; ok {
		return e
	}
	for k, e := range in.Cfg.Exclude {
		if strings.HasSuffix(k, "*") && strings.HasPrefix(id, k[:len(k)-1]) {
			return e
		}
	}
	return nil
}

// obligationExcl decides an obligation for which known-finding input classes are recorded:
// once with every class excluded (a sat answer there is a NEW violation) and once inside each class.
func (in *Interp) obligationExcl(st *State, s *OblStat, id, kind, site string, cond *Term, msg string, excl []Exclusion) {
	neg := Not(cond)
	outside := []*Term{neg}
	for _, e := range excl {
		outside = append(outside, Not(Raw(e.Pred)))
	}
	in.Res.OblQ++
	r, model := in.Sol.ModelWith(st.Inputs, outside...)
	anySat := false
	switch r {
	case Unknown:
		s.Unknown++
	case Sat:
		anySat = true
		s.Violated++
		key := id + "@" + site
		in.candSeen[key]++
		if in.candSeen[key] <= 3 {
			in.Res.Candidates = append(in.Res.Candidates, Candidate{ID: id, Kind: kind, Site: site, Model: model, PCSize: len(st.PC), Msg: msg})
		}
	}
	allUnsat := r == Unsat
	for _, e := range excl {
		in.Res.OblQ++
		ri, mi := in.Sol.ModelWith(st.Inputs, neg, Raw(e.Pred))
		if ri != Unsat {
			allUnsat = false
		}
		if ri == Sat {
			anySat = true
			key := id + "@" + site + "#" + e.Name
			in.candSeen[key]++
			if in.candSeen[key] <= 2 {
				in.Res.Candidates = append(in.Res.Candidates, Candidate{ID: id, Kind: kind, Site: site, Model: mi, PCSize: len(st.PC), Msg: msg, Tag: "known:" + e.Name})
			}
		}
	}
	if allUnsat {
		s.Proved++
		return
	}
	if b, ok := cond.ConstBool(); ok && !b {
		if kind == "panic" {
			panic(pathEnd{"panic"})
		}
		return
	}
	if kind == "panic" || anySat {
		in.Res.BranchQ++
		if in.Sol.CheckWith(cond) == Unsat {
			if kind == "panic" {
				panic(pathEnd{"panic"})
			}
			panic(pathEnd{"cut"})
		}
		in.assume(st, cond)
	}
}

// blockModel returns a constraint that excludes the given assignment of the integer/boolean inputs.
func blockModel(vars []*Term, model map[string]string) *Term {
	var alts []*Term
	for _, v := range vars {
		val, ok := model[v.Name]
		if !ok {
			continue
		}
		switch v.Sort {
		case SInt:
			n, ok := new(big.Int).SetString(val, 10)
			if !ok {
				continue
			}
			alts = append(alts, Not(Eq(v, BigC(n))))
		case SBool:
			alts = append(alts, Not(Eq(v, BoolC(val == "true"))))
		}
	}
	if len(alts) == 0 {
		return nil
	}
	r := alts[0]
	for _, a := range alts[1:] {
		r = Or(r, a)
	}
	return r
}

func clip(s string, n int) string {
	if len(s) > n {
		return s[:n] + "..."
	}
	return s
}

// require is a runtime-panic obligation (bounds, nil, div by zero ...).
func (in *Interp) require(st *State, cond *Term, what string) {
	if b, ok := cond.ConstBool(); ok && b {
		return
	}
	if st.Spec {
		panic(specAbort{"require"})
	}
	fr := st.top()
	site := in.posOf(fr.Block.Instrs[fr.PC], fr)
	if fr.InitMode {
		panic(unsupported("possible panic in package init: " + what))
	}
	if in.Cfg.PanicMode == "assume" {
		if b, ok := cond.ConstBool(); ok && !b {
			panic(pathEnd{"cut"})
		}
		in.assume(st, cond)
		return
	}
	in.obligation(st, "panic:"+what+"@"+site, "panic", site, cond, what)
}

// ---------------------------------------------------------------------------
// operand access

func (in *Interp) get(st *State, fr *Frame, v ssa.Value) Value {
	switch x := v.(type) {
	case *ssa.Const:
		return constValue(x)
	case *ssa.Function:
		return FuncV{Fn: x}
	case *ssa.Builtin:
		return FuncV{Builtin: x}
	case *ssa.Global:
		return PtrV{Obj: in.globalObj(st, x)}
	case *ssa.FreeVar:
		for i, fv := range fr.Fn.FreeVars {
			if fv == x {
				return fr.Env[i]
			}
		}
		panic("free var not found")
	}
	idx, ok := fr.Info.index[v]
	if !ok {
		panic(fmt.Sprintf("no register for %v (%T) in %s", v, v, fr.Fn))
	}
	r := fr.Regs[idx]
	if r == nil {
		panic(fmt.Sprintf("unset register %s = %v in %s", v.Name(), v, fr.Fn))
	}
	return r
}

func (in *Interp) set(fr *Frame, v ssa.Value, val Value) {
	fr.Regs[fr.Info.index[v]] = val
}

func (in *Interp) term(st *State, fr *Frame, v ssa.Value) *Term {
	x := in.get(st, fr, v)
	t, ok := x.(*Term)
	if !ok {
		if p, ok := x.(PoisonV); ok {
			panic(unsupported("use of opaque value: " + p.Why))
		}
		panic(unsupported(fmt.Sprintf("expected scalar, got %T for %v", x, v)))
	}
	return t
}

func (in *Interp) globalObj(st *State, g *ssa.Global) int {
	if id, ok := st.Globals[g]; ok {
		return id
	}
	pkg := g.Pkg
	if !st.PkgInit[pkg] {
		st.PkgInit[pkg] = true
		in.runInit(st, pkg)
		if id, ok := st.Globals[g]; ok {
			return id
		}
	}
	elem := g.Type().(*types.Pointer).Elem()
	id := st.alloc(zeroValue(elem))
	st.Globals[g] = id
	return id
}

// runInit executes the package initializer in "init mode": straight-line, calls
// to anything but intrinsics yield opaque values.
func (in *Interp) runInit(st *State, pkg *ssa.Package) {
	initFn := pkg.Func("init")
	if initFn == nil {
		return
	}
	if !in.built[pkg] {
		in.built[pkg] = true
		pkg.Build()
	}
	if len(initFn.Blocks) == 0 {
		return
	}
	// pre-allocate all globals of the package with zero values
	for _, m := range pkg.Members {
		if g, ok := m.(*ssa.Global); ok {
			if _, ok := st.Globals[g]; !ok {
				func() {
					defer func() {
						if r := recover(); r != nil {
							st.Globals[g] = st.alloc(PoisonV{"global of unsupported type " + g.Name()})
						}
					}()
					st.Globals[g] = st.alloc(zeroValue(g.Type().(*types.Pointer).Elem()))
				}()
			}
		}
	}
	depth := len(st.Frames)
	fr := in.newFrame(initFn, nil, nil)
	fr.InitMode = true
	fr.Discard = true
	st.Frames = append(st.Frames, fr)
	ok := func() (ok bool) {
		defer func() {
			if r := recover(); r != nil {
				switch r.(type) {
				case unsupportedErr, pathEnd, forkReq, []alternative:
					ok = false
				default:
					panic(r)
				}
			}
		}()
		for len(st.Frames) > depth {
			f := st.top()
			in.step(st, f, f.Block.Instrs[f.PC])
		}
		return true
	}()
	if !ok {
		// Abandon the rest of init: globals not yet assigned keep zero values, which may be wrong; poison those
		// whose initial store had not yet been reached is not tracked precisely, so poison every global of the
		// package that still holds a nil/zero pointer-like value.
		st.Frames = st.Frames[:depth]
	}
}

// ---------------------------------------------------------------------------
// memory

func (in *Interp) cellRange(st *State, idx *Term, n int) (lo, hi int) {
	lo, hi = 0, n-1
	if idx.Lo != nil {
		f := ratFloor(idx.Lo)
		if f.Num().IsInt64() && f.Num().Int64() > int64(lo) {
			lo = int(f.Num().Int64())
		}
	}
	if idx.Hi != nil {
		f := ratFloor(idx.Hi)
		if f.Num().IsInt64() && f.Num().Int64() < int64(hi) {
			hi = int(f.Num().Int64())
		}
	}
	return
}

func (in *Interp) idxConst(st *State, idx *Term) (int, bool) {
	if v, ok := idx.ConstInt64(); ok {
		return int(v), true
	}
	if v, ok := st.Concr[idx.ID]; ok {
		return int(v), true
	}
	return 0, false
}

func (in *Interp) getPath(st *State, root Value, path []PathEl) Value {
	if len(path) == 0 {
		return root
	}
	if p, ok := root.(PoisonV); ok {
		panic(unsupported("access into opaque value: " + p.Why))
	}
	el := path[0]
	if el.Idx == nil {
		s, ok := root.(*StructV)
		if !ok {
			panic(fmt.Sprintf("getPath: field of %T", root))
		}
		return in.getPath(st, s.F[el.Field], path[1:])
	}
	a, ok := root.(*ArrayV)
	if !ok {
		panic(fmt.Sprintf("getPath: index of %T", root))
	}
	if k, ok := in.idxConst(st, el.Idx); ok {
		if k < 0 || k >= len(a.E) {
			panic(pathEnd{"infeasible"}) // bounds were required earlier
		}
		return in.getPath(st, a.E[k], path[1:])
	}
	lo, hi := in.cellRange(st, el.Idx, len(a.E))
	if lo > hi {
		panic(pathEnd{"infeasible"})
	}
	res := in.getPath(st, a.E[hi], path[1:])
	for k := hi - 1; k >= lo; k-- {
		v := in.getPath(st, a.E[k], path[1:])
		m, ok := merge(Eq(el.Idx, IntC(int64(k))), v, res)
		if !ok {
			in.concretize(st, el.Idx, int64(lo), int64(hi))
		}
		res = m
	}
	return res
}

func (in *Interp) setPath(st *State, root Value, path []PathEl, v Value) Value {
	if len(path) == 0 {
		return v
	}
	if p, ok := root.(PoisonV); ok {
		panic(unsupported("store into opaque value: " + p.Why))
	}
	el := path[0]
	if el.Idx == nil {
		s := root.(*StructV)
		nf := append([]Value(nil), s.F...)
		nf[el.Field] = in.setPath(st, s.F[el.Field], path[1:], v)
		return &StructV{F: nf}
	}
	a := root.(*ArrayV)
	ne := append([]Value(nil), a.E...)
	if k, ok := in.idxConst(st, el.Idx); ok {
		if k < 0 || k >= len(a.E) {
			panic(pathEnd{"infeasible"})
		}
		ne[k] = in.setPath(st, a.E[k], path[1:], v)
		return &ArrayV{E: ne}
	}
	lo, hi := in.cellRange(st, el.Idx, len(a.E))
	for k := lo; k <= hi; k++ {
		nv := in.setPath(st, a.E[k], path[1:], v)
		m, ok := merge(Eq(el.Idx, IntC(int64(k))), nv, a.E[k])
		if !ok {
			in.concretize(st, el.Idx, int64(lo), int64(hi))
		}
		ne[k] = m
	}
	return &ArrayV{E: ne}
}

// merge builds ite(c, a, b) structurally; ok=false if the shapes cannot be merged.
func merge(c *Term, a, b Value) (Value, bool) {
	if cb, ok := c.ConstBool(); ok {
		if cb {
			return a, true
		}
		return b, true
	}
	switch x := a.(type) {
	case *Term:
		y, ok := b.(*Term)
		if !ok || x.Sort != y.Sort {
			return nil, false
		}
		return Ite(c, x, y), true
	case *StructV:
		y, ok := b.(*StructV)
		if !ok || len(x.F) != len(y.F) {
			return nil, false
		}
		if x == y {
			return x, true
		}
		nf := make([]Value, len(x.F))
		for i := range nf {
			m, ok := merge(c, x.F[i], y.F[i])
			if !ok {
				return nil, false
			}
			nf[i] = m
		}
		return &StructV{F: nf}, true
	case *ArrayV:
		y, ok := b.(*ArrayV)
		if !ok || len(x.E) != len(y.E) {
			return nil, false
		}
		if x == y {
			return x, true
		}
		ne := make([]Value, len(x.E))
		for i := range ne {
			m, ok := merge(c, x.E[i], y.E[i])
			if !ok {
				return nil, false
			}
			ne[i] = m
		}
		return &ArrayV{E: ne}, true
	case PtrV:
		y, ok := b.(PtrV)
		if ok && x.Obj == y.Obj && pathEq(x.Path, y.Path) {
			return x, true
		}
		return nil, false
	case StrV:
		y, ok := b.(StrV)
		if ok && x.Atom == nil && y.Atom == nil && x.Fmt == nil && y.Fmt == nil && x.Bytes == nil && y.Bytes == nil && x.Parts == nil && y.Parts == nil && x.S == y.S {
			return x, true
		}
		if ok && x.Atom != nil && y.Atom != nil {
			return StrV{Atom: Ite(c, x.Atom, y.Atom)}, true
		}
		return nil, false
	case SliceV:
		y, ok := b.(SliceV)
		if ok && x.Obj == y.Obj && pathEq(x.Path, y.Path) {
			return SliceV{Obj: x.Obj, Path: x.Path, Off: Ite(c, x.Off, y.Off), Len: Ite(c, x.Len, y.Len), Cap: Ite(c, x.Cap, y.Cap)}, true
		}
		return nil, false
	case IfaceV:
		y, ok := b.(IfaceV)
		if ok && x.T == nil && y.T == nil {
			return x, true
		}
		if ok && x.T != nil && y.T != nil && types.Identical(x.T, y.T) {
			m, ok := merge(c, x.V, y.V)
			if ok {
				return IfaceV{T: x.T, V: m}, true
			}
		}
		return nil, false
	case MapV:
		y, ok := b.(MapV)
		if ok && x.Obj == y.Obj {
			return x, true
		}
		return nil, false
	case InfV:
		y, ok := b.(InfV)
		if ok && x == y {
			return x, true
		}
		return nil, false
	}
	return nil, false
}

func (in *Interp) load(st *State, p PtrV) Value {
	if p.Obj < 0 {
		panic("load of nil pointer (should have been required)")
	}
	return in.getPath(st, st.Heap[p.Obj], p.Path)
}

func (in *Interp) store(st *State, p PtrV, v Value) {
	st.Heap[p.Obj] = in.setPath(st, st.Heap[p.Obj], p.Path, v)
}

func (in *Interp) ptrOf(st *State, v Value, what string) PtrV {
	switch p := v.(type) {
	case PtrV:
		if p.Obj < 0 {
			in.require(st, False, "nil dereference")
			panic(pathEnd{"panic"})
		}
		return p
	case PoisonV:
		panic(unsupported("dereference of opaque value: " + p.Why))
	}
	panic(unsupported(fmt.Sprintf("%s: expected pointer, got %T", what, v)))
}

func extPath(p []PathEl, el PathEl) []PathEl {
	np := make([]PathEl, len(p)+1)
	copy(np, p)
	np[len(p)] = el
	return np
}

// ---------------------------------------------------------------------------
// equality

func (in *Interp) strTerm(s StrV) *Term {
	if s.Atom != nil {
		return s.Atom
	}
	if s.Fmt != nil || s.Bytes != nil || s.Parts != nil {
		panic(unsupported("comparison of opaque/byte/structured string"))
	}
	id, ok := in.strIDs[s.S]
	if !ok {
		id = int64(1_000_000 + len(in.strIDs))
		in.strIDs[s.S] = id
	}
	return IntC(id)
}

func (in *Interp) valEq(a, b Value) *Term {
	switch x := a.(type) {
	case *Term:
		y, ok := b.(*Term)
		if !ok {
			if _, isInf := b.(InfV); isInf {
				return False
			}
			panic(unsupported(fmt.Sprintf("eq %T %T", a, b)))
		}
		return Eq(x, y)
	case InfV:
		if y, ok := b.(InfV); ok {
			return BoolC(x == y)
		}
		return False
	case PtrV:
		y, ok := b.(PtrV)
		if !ok {
			panic(unsupported(fmt.Sprintf("eq %T %T", a, b)))
		}
		if x.Obj != y.Obj || len(x.Path) != len(y.Path) {
			return False
		}
		r := True
		for i := range x.Path {
			if x.Path[i].Field != y.Path[i].Field {
				return False
			}
			if x.Path[i].Idx != nil {
				if y.Path[i].Idx == nil {
					return False
				}
				r = And(r, Eq(x.Path[i].Idx, y.Path[i].Idx))
			}
		}
		return r
	case StrV:
		y := b.(StrV)
		if x.Atom == nil && y.Atom == nil && x.Fmt == nil && y.Fmt == nil && x.Bytes == nil && y.Bytes == nil && x.Parts == nil && y.Parts == nil {
			return BoolC(x.S == y.S)
		}
		if x.Parts != nil || y.Parts != nil {
			xp, ok1 := partsOf(x)
			yp, ok2 := partsOf(y)
			if !ok1 || !ok2 {
				panic(unsupported("comparison of a structured string with an opaque one"))
			}
			r, ok := eqParts(xp, yp)
			if !ok {
				panic(unsupported("comparison of structured strings: number not delimited"))
			}
			return r
		}
		if x.Bytes != nil || y.Bytes != nil {
			return in.bytesEq(x, y)
		}
		if x.Fmt != nil && y.Fmt != nil && x.Fmt.Format == y.Fmt.Format && len(x.Fmt.Args) == len(y.Fmt.Args) && strings.HasPrefix(x.Fmt.Format, "enc:") {
			// vEncInt strings: injective in their integer argument
			r := True
			for i := range x.Fmt.Args {
				r = And(r, Eq(x.Fmt.Args[i].(*Term), y.Fmt.Args[i].(*Term)))
			}
			return r
		}
		if x.Fmt != nil && strings.HasPrefix(x.Fmt.Format, "enc:") && y.Fmt == nil && y.Atom == nil {
			return False // an encoded value never equals a plain literal
		}
		if y.Fmt != nil && strings.HasPrefix(y.Fmt.Format, "enc:") && x.Fmt == nil && x.Atom == nil {
			return False
		}
		return Eq(in.strTerm(x), in.strTerm(y))
	case IfaceV:
		y, ok := b.(IfaceV)
		if !ok {
			panic(unsupported(fmt.Sprintf("eq iface %T", b)))
		}
		if x.T == nil || y.T == nil {
			return BoolC(x.T == nil && y.T == nil)
		}
		if !types.Identical(x.T, y.T) {
			return False
		}
		return in.valEq(x.V, y.V)
	case *StructV:
		y := b.(*StructV)
		r := True
		for i := range x.F {
			r = And(r, in.valEq(x.F[i], y.F[i]))
		}
		return r
	case *ArrayV:
		y := b.(*ArrayV)
		r := True
		for i := range x.E {
			r = And(r, in.valEq(x.E[i], y.E[i]))
		}
		return r
	case SliceV:
		y := b.(SliceV)
		if y.Obj < 0 {
			return BoolC(x.Obj < 0)
		}
		if x.Obj < 0 {
			return BoolC(y.Obj < 0)
		}
		panic(unsupported("slice comparison"))
	case MapV:
		y := b.(MapV)
		if y.Obj < 0 || x.Obj < 0 {
			return BoolC(x.Obj < 0 && y.Obj < 0)
		}
		return BoolC(x.Obj == y.Obj)
	case FuncV:
		y := b.(FuncV)
		return BoolC(x.Nil == y.Nil)
	case ChanV:
		y := b.(ChanV)
		return BoolC(x.Obj == y.Obj)
	case OpaqueErr:
		y, ok := b.(OpaqueErr)
		return BoolC(ok && x.Site == y.Site && x.Msg == y.Msg)
	case PoisonV:
		panic(unsupported("comparison of opaque value: " + x.Why))
	}
	panic(unsupported(fmt.Sprintf("equality on %T", a)))
}

func (in *Interp) bytesEq(x, y StrV) *Term {
	xb, yb := strBytes(x), strBytes(y)
	if len(xb) != len(yb) {
		return False
	}
	r := True
	for i := range xb {
		r = And(r, Eq(xb[i], yb[i]))
	}
	return r
}

func strBytes(s StrV) []*Term {
	if s.Bytes != nil {
		return s.Bytes
	}
	if s.Atom != nil || s.Fmt != nil || s.Parts != nil {
		panic(unsupported("bytes of opaque/structured string"))
	}
	r := make([]*Term, len(s.S))
	for i := 0; i < len(s.S); i++ {
		r[i] = IntC(int64(s.S[i]))
	}
	return r
}

var _ = token.NoPos
