package symex

import (
	"math"
	"net/url"
	"path"
	"fmt"
	"go/types"
	"math/big"
	"sort"
	"strconv"
	"strings"

	"golang.org/x/tools/go/ssa"
)

var opaqueErrType types.Type = types.NewNamed(types.NewTypeName(0, nil, "opaqueError", nil), types.NewStruct(nil, nil), nil)

// redirect asks invoke to call another function instead (stub kind "call:<name>").
type redirect struct {
	fn   *ssa.Function
	args []Value
}

type handler func(in *Interp, st *State, fr *Frame, fn *ssa.Function, args []Value) Value

func noop(in *Interp, st *State, fr *Frame, fn *ssa.Function, args []Value) Value {
	return zeroResults(fn)
}

func zeroResults(fn *ssa.Function) Value {
	r := fn.Signature.Results()
	switch r.Len() {
	case 0:
		return TupleV{}
	case 1:
		return zeroValue(r.At(0).Type())
	}
	t := make(TupleV, r.Len())
	for i := range t {
		t[i] = zeroValue(r.At(i).Type())
	}
	return t
}

func concStr(v Value) (string, bool) {
	s, ok := v.(StrV)
	if !ok || s.Atom != nil || s.Fmt != nil || s.Bytes != nil || s.Parts != nil {
		return "", false
	}
	return s.S, true
}

// structArgs: true when the first argument is a structured string (or an Itoa rendering) and the others are concrete.
func structArg(args []Value, rest ...int) ([]StrPart, bool) {
	if _, conc := concStr(args[0]); conc {
		return nil, false
	}
	ps, ok := partsOf(args[0])
	if !ok {
		return nil, false
	}
	for _, i := range rest {
		if _, c := concStr(args[i]); !c {
			return nil, false
		}
	}
	return ps, true
}

func mustStr(v Value, what string) string {
	s, ok := concStr(v)
	if !ok {
		panic(unsupported(what + ": non-concrete string"))
	}
	return s
}

func (in *Interp) intrinsic(fn *ssa.Function) handler {
	name := fn.String()
	if fn.Origin() != nil {
		name = fn.Origin().String()
	}
	if k, ok := in.Cfg.Stubs[name]; ok {
		if strings.HasPrefix(k, "call:") {
			// replace the callee by a harness-defined function of the same signature
			target := k[5:]
			var repl *ssa.Function
			for _, pkg := range in.Prog.AllPackages() {
				if f := pkg.Func(target); f != nil && isVerifFile(in, f) {
					repl = f
					break
				}
			}
			if repl == nil {
				panic(unsupported("stub target not found: " + target))
			}
			if repl == fn {
				return nil
			}
			return func(in *Interp, st *State, fr *Frame, fn *ssa.Function, args []Value) Value {
				panic(redirect{fn: repl, args: args})
			}
		}
		switch k {
		case "noop":
			return noop
		case "poison":
			return func(in *Interp, st *State, fr *Frame, fn *ssa.Function, args []Value) Value {
				r := fn.Signature.Results()
				if r.Len() == 1 {
					return PoisonV{"stubbed " + name}
				}
				t := make(TupleV, r.Len())
				for i := range t {
					t[i] = PoisonV{"stubbed " + name}
				}
				return t
			}
		}
	}
	// sort.Slice and friends go through reflection: run the harness runtime's insertion sort instead
	switch name {
	case "sort.Slice", "sort.SliceStable":
		for _, pkg := range in.Prog.AllPackages() {
			if f := pkg.Func("vSortSlice"); f != nil && isVerifFile(in, f) {
				repl := f
				return func(in *Interp, st *State, fr *Frame, fn *ssa.Function, args []Value) Value {
					panic(redirect{fn: repl, args: args})
				}
			}
		}
	}
	// harness API: functions named v<Upper>... defined in a zz_verif file
	if h, ok := harnessAPI[fn.Name()]; ok && fn.Pkg != nil && isVerifFile(in, fn) {
		return h
	}
	if h, ok := intrinsics[name]; ok {
		return h
	}
	// logging: anything in log/slog or log
	if fn.Pkg != nil {
		switch fn.Pkg.Pkg.Path() {
		case "log/slog", "log":
			return noop
		}
	}
	if strings.HasPrefix(name, "(*log/slog.Logger).") || strings.HasPrefix(name, "(*log.Logger).") {
		return noop
	}
	return nil
}

func isVerifFile(in *Interp, fn *ssa.Function) bool {
	p := in.Prog.Fset.Position(fn.Pos())
	return strings.Contains(p.Filename, "zz_verif")
}

var harnessAPI map[string]handler
var intrinsics map[string]handler

func ratOfInt(v int64) *big.Rat { return new(big.Rat).SetInt64(v) }

func constI64(v Value, what string) int64 {
	t, ok := v.(*Term)
	if ok {
		if c, ok := t.ConstInt64(); ok {
			return c
		}
	}
	panic(unsupported(what + ": expected constant integer"))
}

func sanitize(s string) string {
	var sb strings.Builder
	for _, c := range s {
		if c >= 'a' && c <= 'z' || c >= 'A' && c <= 'Z' || c >= '0' && c <= '9' || c == '_' {
			sb.WriteRune(c)
		} else {
			sb.WriteByte('_')
		}
	}
	return sb.String()
}

func (in *Interp) newInput(st *State, name string, sort Sort, lo, hi *big.Rat) *Term {
	if in.Cfg.Fixed != nil {
		v, ok := in.Cfg.Fixed[name]
		if !ok {
			panic(unsupported("fixed mode: no value for input " + name))
		}
		if sort == SBool {
			return BoolC(v.Sign() != 0)
		}
		if lo != nil && v.Cmp(lo) < 0 || hi != nil && v.Cmp(hi) > 0 {
			panic(pathEnd{"infeasible"})
		}
		return RatC(sort, v)
	}
	t := Var(sort, "in_"+sanitize(name), lo, hi)
	same := func(a, b *big.Rat) bool { return (a == nil) == (b == nil) && (a == nil || a.Cmp(b) == 0) }
	if !same(t.Lo, lo) || !same(t.Hi, hi) {
		// the variable exists already (another path) with a different declared range: the interval attached to the
		// term would be wrong for this path
		panic(unsupported("input " + name + " declared with different ranges on different paths (use distinct names)"))
	}
	for _, o := range st.Inputs {
		if o == t {
			return t
		}
	}
	st.Inputs = append(st.Inputs, t)
	ls, hs := "-inf", "+inf"
	if lo != nil {
		ls = lo.RatString()
		in.Sol.Assert(mk(SBool, "<=", RatC(sort, lo), t))
	}
	if hi != nil {
		hs = hi.RatString()
		in.Sol.Assert(mk(SBool, "<=", t, RatC(sort, hi)))
	}
	if sort == SBool {
		ls, hs = "false", "true"
	}
	in.Res.Inputs[name] = [2]string{ls, hs}
	return t
}

func init() {
	harnessAPI = map[string]handler{
		// vInt(name string, lo, hi int) int
		"vInt": func(in *Interp, st *State, fr *Frame, fn *ssa.Function, args []Value) Value {
			name := mustStr(args[0], "vInt name")
			lo, hi := constI64(args[1], "vInt lo"), constI64(args[2], "vInt hi")
			return in.newInput(st, name, SInt, ratOfInt(lo), ratOfInt(hi))
		},
		// vUint64(name string, lo, hi uint64) uint64
		"vUint64": func(in *Interp, st *State, fr *Frame, fn *ssa.Function, args []Value) Value {
			name := mustStr(args[0], "vUint64 name")
			lo, _ := args[1].(*Term).ConstInt()
			hi, _ := args[2].(*Term).ConstInt()
			if lo == nil || hi == nil {
				panic(unsupported("vUint64 bounds must be constant"))
			}
			return in.newInput(st, name, SInt, new(big.Rat).SetInt(lo), new(big.Rat).SetInt(hi))
		},
		"vBool": func(in *Interp, st *State, fr *Frame, fn *ssa.Function, args []Value) Value {
			return in.newInput(st, mustStr(args[0], "vBool name"), SBool, nil, nil)
		},
		// vFloat(name string, lo, hi float64) float64 : an arbitrary *real* in [lo,hi] (finite, not necessarily a float64 value)
		// vFloatMS(name, lo, hi int) float64: float64(k)*0.001-like values are built by the harness itself from vInt.
		"vAssume": func(in *Interp, st *State, fr *Frame, fn *ssa.Function, args []Value) Value {
			c := args[0].(*Term)
			in.Res.Assumes++
			if b, ok := c.ConstBool(); ok {
				if !b {
					panic(pathEnd{"infeasible"})
				}
				return TupleV{}
			}
			in.Res.BranchQ++
			if in.Sol.CheckWith(c) == Unsat {
				panic(pathEnd{"infeasible"})
			}
			in.assume(st, c)
			return TupleV{}
		},
		"vAssert": func(in *Interp, st *State, fr *Frame, fn *ssa.Function, args []Value) Value {
			id := mustStr(args[0], "vAssert id")
			c := args[1].(*Term)
			site := ""
			if len(st.Frames) >= 1 {
				site = in.posOf(fr.Block.Instrs[fr.PC], fr)
			}
			in.obligation(st, id, "assert", site, c, "")
			return TupleV{}
		},
		"vReach": func(in *Interp, st *State, fr *Frame, fn *ssa.Function, args []Value) Value {
			id := mustStr(args[0], "vReach id")
			in.Res.BranchQ++
			if in.Sol.Check() != Unsat {
				in.Res.Reach[id]++
			}
			return TupleV{}
		},
		"vObserve": func(in *Interp, st *State, fr *Frame, fn *ssa.Function, args []Value) Value {
			name := mustStr(args[0], "vObserve name")
			if len(in.Res.Observes[name]) < 64 {
				in.Res.Observes[name] = append(in.Res.Observes[name], describe(args[1]))
			}
			return TupleV{}
		},
		// vAtom(name string) string : symbolic string supporting only ==, != and map keys
		"vAtom": func(in *Interp, st *State, fr *Frame, fn *ssa.Function, args []Value) Value {
			name := mustStr(args[0], "vAtom name")
			n := constI64(args[1], "vAtom n")
			t := in.newInput(st, name, SInt, ratOfInt(0), ratOfInt(n-1))
			return StrV{Atom: t}
		},
		// vBytes(name string, n int) string : symbolic byte string of concrete length n
		"vBytes": func(in *Interp, st *State, fr *Frame, fn *ssa.Function, args []Value) Value {
			name := mustStr(args[0], "vBytes name")
			n := constI64(args[1], "vBytes n")
			bs := make([]*Term, n)
			for i := range bs {
				bs[i] = in.newInput(st, fmt.Sprintf("%s_%d", name, i), SInt, ratOfInt(0), ratOfInt(255))
			}
			if n == 0 {
				return StrV{}
			}
			return StrV{Bytes: bs}
		},
		// vSegName(pattern string, id int) string: opaque formatted name
		"vSegName": func(in *Interp, st *State, fr *Frame, fn *ssa.Function, args []Value) Value {
			pat := mustStr(args[0], "vSegName pattern")
			pat = strings.ReplaceAll(strings.ReplaceAll(pat, "$Number$", "%d"), "$Time$", "%d")
			if c, ok := args[1].(*Term).ConstInt64(); ok {
				return StrV{S: strings.ReplaceAll(pat, "%d", strconv.Itoa(int(c)))}
			}
			return StrV{Fmt: &OpaqueFmt{Format: pat, Args: []Value{args[1]}}}
		},
		// vStrf(format string, args ...int) string: structured string, %d verbs only (natively fmt.Sprintf)
		"vStrf": func(in *Interp, st *State, fr *Frame, fn *ssa.Function, args []Value) Value {
			format := mustStr(args[0], "vStrf format")
			var vals []Value
			if sl, ok2 := args[1].(SliceV); ok2 && sl.Obj >= 0 {
				n := in.concretize(st, sl.Len, 0, 64)
				for i := int64(0); i < n; i++ {
					vals = append(vals, in.sliceElem(st, sl, i))
				}
			}
			var ps []StrPart
			k := 0
			for {
				i := strings.Index(format, "%d")
				if i < 0 {
					break
				}
				ps = append(ps, StrPart{Lit: format[:i]})
				if k >= len(vals) {
					panic(unsupported("vStrf: too few arguments"))
				}
				ps = append(ps, StrPart{Num: vals[k].(*Term)})
				k++
				format = format[i+2:]
			}
			if strings.Contains(format, "%") {
				panic(unsupported("vStrf: only %d verbs are supported"))
			}
			ps = append(ps, StrPart{Lit: format})
			return normParts(ps)
		},
		// vConc(x int) int: fork on the value of x (keeps later indexing concrete)
		"vConc": func(in *Interp, st *State, fr *Frame, fn *ssa.Function, args []Value) Value {
			t := args[0].(*Term)
			return IntC(in.concretize(st, t, -1<<40, 1<<40))
		},
		// vEncInt(tag string, v int) string: an opaque string that carries the integer v (injective per tag)
		"vEncInt": func(in *Interp, st *State, fr *Frame, fn *ssa.Function, args []Value) Value {
			tag := mustStr(args[0], "vEncInt tag")
			return StrV{Fmt: &OpaqueFmt{Format: "enc:" + tag, Args: []Value{args[1]}}}
		},
		// vDecInt(tag, s string) int: the integer carried by a vEncInt string
		"vDecInt": func(in *Interp, st *State, fr *Frame, fn *ssa.Function, args []Value) Value {
			tag := mustStr(args[0], "vDecInt tag")
			s := args[1].(StrV)
			if s.Fmt == nil || s.Fmt.Format != "enc:"+tag {
				panic(unsupported("vDecInt: not a vEncInt(" + tag + ") string"))
			}
			return s.Fmt.Args[0]
		},
		// vDecIntIn(tag, s string) int: the integer of the vEncInt(tag) string embedded in an opaque formatted string
		"vDecIntIn": func(in *Interp, st *State, fr *Frame, fn *ssa.Function, args []Value) Value {
			tag := mustStr(args[0], "vDecIntIn tag")
			var find func(v Value) Value
			find = func(v Value) Value {
				s, ok := v.(StrV)
				if !ok || s.Fmt == nil {
					return nil
				}
				if s.Fmt.Format == "enc:"+tag {
					return s.Fmt.Args[0]
				}
				for _, a := range s.Fmt.Args {
					if iv, ok := a.(IfaceV); ok {
						a = iv.V
					}
					if r := find(a); r != nil {
						return r
					}
				}
				return nil
			}
			if r := find(args[1]); r != nil {
				return r
			}
			panic(unsupported("vDecIntIn: no embedded vEncInt(" + tag + ") value"))
		},
		// vFmtInt(s string) int: first integer argument of an opaque formatted string (first integer of a concrete one)
		"vFmtInt": func(in *Interp, st *State, fr *Frame, fn *ssa.Function, args []Value) Value {
			s := args[0].(StrV)
			if c, ok := concStr(s); ok {
				for i := 0; i < len(c); i++ {
					if c[i] >= '0' && c[i] <= '9' {
						j := i
						for j < len(c) && c[j] >= '0' && c[j] <= '9' {
							j++
						}
						n, _ := strconv.Atoi(c[i:j])
						if i > 0 && c[i-1] == '-' {
							n = -n
						}
						return IntC(int64(n))
					}
				}
				return IntC(0)
			}
			if s.Parts != nil {
				for _, p := range s.Parts {
					if p.Num != nil {
						return p.Num
					}
				}
			}
			if s.Fmt != nil {
				for _, a := range s.Fmt.Args {
					if iv, ok := a.(IfaceV); ok {
						a = iv.V
					}
					if t, ok := a.(*Term); ok && t.Sort == SInt {
						return t
					}
				}
			}
			panic(unsupported("vFmtInt: no integer in opaque string"))
		},
		// vFmtIntAt(s string, k int) int: k-th integer argument of an opaque formatted / structured string
		"vFmtIntAt": func(in *Interp, st *State, fr *Frame, fn *ssa.Function, args []Value) Value {
			s := args[0].(StrV)
			k := int(constI64(args[1], "vFmtIntAt index"))
			var ints []*Term
			if c, ok := concStr(s); ok {
				for i := 0; i < len(c); {
					if c[i] >= '0' && c[i] <= '9' {
						j := i
						for j < len(c) && c[j] >= '0' && c[j] <= '9' {
							j++
						}
						n, _ := strconv.Atoi(c[i:j])
						ints = append(ints, IntC(int64(n)))
						i = j
						continue
					}
					i++
				}
			} else if ps, ok := partsOf(s); ok {
				for _, p := range ps {
					if p.Num != nil {
						ints = append(ints, p.Num)
					} else {
						for i := 0; i < len(p.Lit); {
							if p.Lit[i] >= '0' && p.Lit[i] <= '9' {
								j := i
								for j < len(p.Lit) && p.Lit[j] >= '0' && p.Lit[j] <= '9' {
									j++
								}
								n, _ := strconv.Atoi(p.Lit[i:j])
								ints = append(ints, IntC(int64(n)))
								i = j
								continue
							}
							i++
						}
					}
				}
			} else if s.Fmt != nil {
				for _, a := range s.Fmt.Args {
					if iv, ok := a.(IfaceV); ok {
						a = iv.V
					}
					if t, ok := a.(*Term); ok && t.Sort == SInt {
						ints = append(ints, t)
					}
				}
			}
			if k >= len(ints) {
				panic(unsupported("vFmtIntAt: fewer integers than asked for"))
			}
			return ints[k]
		},
		// vModelPanic(msg string): a stub models a runtime panic of the code it replaces (reported like a real panic)
		"vModelPanic": func(in *Interp, st *State, fr *Frame, fn *ssa.Function, args []Value) Value {
			msg := mustStr(args[0], "vModelPanic")
			site := in.posOf(fr.Block.Instrs[fr.PC], fr)
			if in.Cfg.PanicMode == "assume" {
				panic(pathEnd{"cut"})
			}
			in.obligation(st, "panic:"+msg+"@"+site, "panic", site, False, msg)
			panic(pathEnd{"panic"})
		},
		// vThread(k int): logical thread marker for the shared-access (lockset) check
		"vThread": func(in *Interp, st *State, fr *Frame, fn *ssa.Function, args []Value) Value {
			st.Thread = int(constI64(args[0], "vThread"))
			st.ThreadHeap0 = len(st.Heap)
			return TupleV{}
		},
		// vLenAny(x any) int: length of the slice held in x
		"vLenAny": func(in *Interp, st *State, fr *Frame, fn *ssa.Function, args []Value) Value {
			sl, ok := args[0].(IfaceV).V.(SliceV)
			if !ok {
				panic(unsupported("vLenAny: not a slice"))
			}
			if sl.Obj < 0 {
				return IntC(0)
			}
			return sl.Len
		},
		// vSwap(x any, i, j int): swap two elements of the slice held in x
		"vSwap": func(in *Interp, st *State, fr *Frame, fn *ssa.Function, args []Value) Value {
			sl, ok := args[0].(IfaceV).V.(SliceV)
			if !ok || sl.Obj < 0 {
				panic(unsupported("vSwap: not a slice"))
			}
			pi := PtrV{Obj: sl.Obj, Path: extPath(sl.Path, PathEl{Field: -1, Idx: Add(sl.Off, args[1].(*Term))})}
			pj := PtrV{Obj: sl.Obj, Path: extPath(sl.Path, PathEl{Field: -1, Idx: Add(sl.Off, args[2].(*Term))})}
			a, b := in.load(st, pi), in.load(st, pj)
			in.store(st, pi, b)
			in.store(st, pj, a)
			return TupleV{}
		},
		// vInf() float64: +Inf
		"vInf": func(in *Interp, st *State, fr *Frame, fn *ssa.Function, args []Value) Value {
			return InfV{}
		},
		// vHeld(mu *sync.Mutex) bool — ghost lock state
		"vHeld": func(in *Interp, st *State, fr *Frame, fn *ssa.Function, args []Value) Value {
			p := args[0].(PtrV)
			return BoolC(st.Mutex[lockKey(p)] )
		},
	}

	mathRound := func(f *Term) *Term {
		half := RealC(big.NewRat(1, 2))
		pos := ToReal(floorWithShadow(Add(f, half)))
		neg := Neg(ToReal(floorWithShadow(Add(Neg(f), half))))
		if f.Lo != nil && f.Lo.Sign() >= 0 {
			return pos
		}
		if f.Hi != nil && f.Hi.Sign() <= 0 {
			return neg
		}
		return Ite(cmpWithShadow("<=", RealC(new(big.Rat)), f), pos, neg)
	}
	fl := func(v Value, what string) *Term {
		t, ok := v.(*Term)
		if !ok {
			panic(unsupported(what + " of non-finite/opaque float"))
		}
		return t
	}

	intrinsics = map[string]handler{
		"math.Round": func(in *Interp, st *State, fr *Frame, fn *ssa.Function, args []Value) Value {
			return mathRound(fl(args[0], "math.Round"))
		},
		"math.Floor": func(in *Interp, st *State, fr *Frame, fn *ssa.Function, args []Value) Value {
			return ToReal(floorWithShadow(fl(args[0], "math.Floor")))
		},
		"math.Ceil": func(in *Interp, st *State, fr *Frame, fn *ssa.Function, args []Value) Value {
			return Neg(ToReal(floorWithShadow(Neg(fl(args[0], "math.Ceil")))))
		},
		"math.Trunc": func(in *Interp, st *State, fr *Frame, fn *ssa.Function, args []Value) Value {
			return ToReal(truncToInt(fl(args[0], "math.Trunc")))
		},
		"math.Abs": func(in *Interp, st *State, fr *Frame, fn *ssa.Function, args []Value) Value {
			if _, ok := args[0].(InfV); ok {
				return InfV{}
			}
			f := fl(args[0], "math.Abs")
			return Ite(Ge(f, RealC(new(big.Rat))), f, Neg(f))
		},
		"math.Inf": func(in *Interp, st *State, fr *Frame, fn *ssa.Function, args []Value) Value {
			s := constI64(args[0], "math.Inf sign")
			return InfV{Neg: s < 0}
		},
		"math.IsInf": func(in *Interp, st *State, fr *Frame, fn *ssa.Function, args []Value) Value {
			iv, ok := args[0].(InfV)
			if !ok {
				return False
			}
			s := constI64(args[1], "math.IsInf sign")
			return BoolC(s == 0 || (s > 0 && !iv.Neg) || (s < 0 && iv.Neg))
		},
		"math.IsNaN": func(in *Interp, st *State, fr *Frame, fn *ssa.Function, args []Value) Value { return False },

		"errors.New": func(in *Interp, st *State, fr *Frame, fn *ssa.Function, args []Value) Value {
			msg, _ := concStr(args[0])
			site := in.posOf(fr.Block.Instrs[fr.PC], fr)
			id := st.alloc(OpaqueErr{Site: site, Msg: msg})
			return IfaceV{T: opaqueErrType, V: PtrV{Obj: id}}
		},
		"fmt.Errorf": func(in *Interp, st *State, fr *Frame, fn *ssa.Function, args []Value) Value {
			format, _ := concStr(args[0])
			site := in.posOf(fr.Block.Instrs[fr.PC], fr)
			var wrapped Value
			if strings.Contains(format, "%w") {
				if sl, ok := args[1].(SliceV); ok && sl.Obj >= 0 {
					n := in.concretize(st, sl.Len, 0, 64)
					for i := int64(0); i < n; i++ {
						if iv, ok := in.sliceElem(st, sl, i).(IfaceV); ok && iv.T != nil && in.isError(iv.T) {
							wrapped = iv
						}
					}
				}
			}
			id := st.alloc(OpaqueErr{Site: site, Msg: format, Wrapped: wrapped})
			return IfaceV{T: opaqueErrType, V: PtrV{Obj: id}}
		},
		"errors.Is": func(in *Interp, st *State, fr *Frame, fn *ssa.Function, args []Value) Value {
			err, target := args[0].(IfaceV), args[1].(IfaceV)
			res := False
			for depth := 0; depth < 32; depth++ {
				if err.T == nil {
					break
				}
				// comparable dynamic types only
				eq := func() (t *Term) {
					defer func() {
						if r := recover(); r != nil {
							t = False
						}
					}()
					return in.valEq(err, target)
				}()
				res = Or(res, eq)
				if b, ok := eq.ConstBool(); ok && b {
					break
				}
				if err.T != opaqueErrType {
					break
				}
				oe := st.Heap[err.V.(PtrV).Obj].(OpaqueErr)
				if oe.Wrapped == nil {
					break
				}
				err = oe.Wrapped.(IfaceV)
			}
			return res
		},
		"errors.As": func(in *Interp, st *State, fr *Frame, fn *ssa.Function, args []Value) Value {
			err := args[0].(IfaceV)
			tgt := args[1].(IfaceV) // any holding *T
			pt, ok := tgt.T.(*types.Pointer)
			if !ok {
				panic(unsupported("errors.As target not a pointer"))
			}
			want := pt.Elem()
			for depth := 0; depth < 32; depth++ {
				if err.T == nil {
					return False
				}
				if err.T != opaqueErrType {
					if types.IsInterface(want) {
						if types.Implements(err.T, want.Underlying().(*types.Interface)) {
							in.store(st, tgt.V.(PtrV), err)
							return True
						}
					} else if types.Identical(err.T, want) {
						in.store(st, tgt.V.(PtrV), err.V)
						return True
					}
					return False
				}
				oe := st.Heap[err.V.(PtrV).Obj].(OpaqueErr)
				if oe.Wrapped == nil {
					return False
				}
				err = oe.Wrapped.(IfaceV)
			}
			return False
		},
		"errors.Unwrap": func(in *Interp, st *State, fr *Frame, fn *ssa.Function, args []Value) Value {
			err := args[0].(IfaceV)
			if err.T == opaqueErrType {
				oe := st.Heap[err.V.(PtrV).Obj].(OpaqueErr)
				if oe.Wrapped != nil {
					return oe.Wrapped
				}
			}
			return IfaceV{}
		},
		"fmt.Sprintf": func(in *Interp, st *State, fr *Frame, fn *ssa.Function, args []Value) Value {
			format, ok := concStr(args[0])
			var vals []Value
			if sl, ok2 := args[1].(SliceV); ok2 && sl.Obj >= 0 {
				n := in.concretize(st, sl.Len, 0, 64)
				for i := int64(0); i < n; i++ {
					vals = append(vals, in.sliceElem(st, sl, i))
				}
			}
			if ok {
				goArgs := make([]interface{}, len(vals))
				all := true
				for i, v := range vals {
					g, ok := goValue(v)
					if !ok {
						all = false
						break
					}
					goArgs[i] = g
				}
				if all {
					return StrV{S: fmt.Sprintf(format, goArgs...)}
				}
			}
			return StrV{Fmt: &OpaqueFmt{Format: format, Args: vals}}
		},
		"fmt.Sprint": func(in *Interp, st *State, fr *Frame, fn *ssa.Function, args []Value) Value {
			return StrV{Fmt: &OpaqueFmt{Format: "<sprint>"}}
		},
		"fmt.Println": noop, "fmt.Printf": noop, "fmt.Print": noop, "fmt.Fprintf": noop, "fmt.Fprintln": noop,
		"strconv.Itoa": func(in *Interp, st *State, fr *Frame, fn *ssa.Function, args []Value) Value {
			t := args[0].(*Term)
			if c, ok := t.ConstInt64(); ok {
				return StrV{S: strconv.Itoa(int(c))}
			}
			return StrV{Fmt: &OpaqueFmt{Format: "%d", Args: []Value{t}}}
		},
		"strings.HasPrefix": func(in *Interp, st *State, fr *Frame, fn *ssa.Function, args []Value) Value {
			if ps, ok := structArg(args, 1); ok {
				r, dec := hasPrefixParts(ps, mustStr(args[1], "strings.HasPrefix"))
				if !dec {
					panic(unsupported("strings.HasPrefix: depends on the digits of a symbolic number"))
				}
				return BoolC(r)
			}
			return BoolC(strings.HasPrefix(mustStr(args[0], "strings.HasPrefix"), mustStr(args[1], "strings.HasPrefix")))
		},
		"strings.HasSuffix": func(in *Interp, st *State, fr *Frame, fn *ssa.Function, args []Value) Value {
			if ps, ok := structArg(args, 1); ok {
				r, dec := hasSuffixParts(ps, mustStr(args[1], "strings.HasSuffix"))
				if !dec {
					panic(unsupported("strings.HasSuffix: depends on the digits of a symbolic number"))
				}
				return BoolC(r)
			}
			return BoolC(strings.HasSuffix(mustStr(args[0], "strings.HasSuffix"), mustStr(args[1], "strings.HasSuffix")))
		},
		"strings.Contains": func(in *Interp, st *State, fr *Frame, fn *ssa.Function, args []Value) Value {
			if ps, ok := structArg(args, 1); ok {
				pat := mustStr(args[1], "strings.Contains")
				for _, x := range ps {
					if x.Num == nil && strings.Contains(x.Lit, pat) {
						return True
					}
				}
				if couldOverlapNum(ps, pat) {
					panic(unsupported("strings.Contains: pattern may overlap a symbolic number"))
				}
				return False
			}
			return BoolC(strings.Contains(mustStr(args[0], "strings.Contains"), mustStr(args[1], "strings.Contains")))
		},
		"strings.TrimPrefix": func(in *Interp, st *State, fr *Frame, fn *ssa.Function, args []Value) Value {
			if ps, ok := structArg(args, 1); ok {
				pre := mustStr(args[1], "strings.TrimPrefix")
				r, dec := hasPrefixParts(ps, pre)
				if !dec {
					panic(unsupported("strings.TrimPrefix: depends on the digits of a symbolic number"))
				}
				if !r {
					return args[0]
				}
				np, ok := dropPrefixParts(ps, len(pre))
				if !ok {
					panic(unsupported("strings.TrimPrefix: cut inside a symbolic number"))
				}
				return normParts(np)
			}
			return StrV{S: strings.TrimPrefix(mustStr(args[0], "strings.TrimPrefix"), mustStr(args[1], "strings.TrimPrefix"))}
		},
		"strings.Index": func(in *Interp, st *State, fr *Frame, fn *ssa.Function, args []Value) Value {
			return IntC(int64(strings.Index(mustStr(args[0], "strings.Index"), mustStr(args[1], "strings.Index"))))
		},
		"path.Join": func(in *Interp, st *State, fr *Frame, fn *ssa.Function, args []Value) Value {
			sl := args[0].(SliceV)
			n := in.concretize(st, sl.Len, 0, 64)
			parts := make([]string, n)
			var fargs []Value
			opaque := false
			structured := false
			for i := range parts {
				if isStructured(in.sliceElem(st, sl, int64(i))) {
					structured = true
				}
			}
			if structured {
				// elements are joined with "/" (none of them is empty, contains "//" or ".." in the literal parts)
				var ps []StrPart
				for i := range parts {
					ep, ok := partsOf(in.sliceElem(st, sl, int64(i)))
					if !ok {
						panic(unsupported("path.Join of structured and opaque strings"))
					}
					if len(ep) == 0 {
						continue
					}
					for xi, x := range ep {
						if x.Num == nil && (strings.Contains(x.Lit, "//") || strings.Contains(x.Lit, "..") || (xi == len(ep)-1 && strings.HasSuffix(x.Lit, "/"))) {
							panic(unsupported("path.Join of a structured string that needs cleaning"))
						}
					}
					if len(ps) > 0 {
						ps = append(ps, StrPart{Lit: "/"})
					}
					ps = append(ps, ep...)
				}
				return normParts(ps)
			}
			for i := range parts {
				sv := in.sliceElem(st, sl, int64(i)).(StrV)
				if sv.Fmt != nil {
					opaque = true
					parts[i] = sv.Fmt.Format
					fargs = append(fargs, sv.Fmt.Args...)
					continue
				}
				parts[i] = mustStr(sv, "path.Join")
			}
			if opaque {
				return StrV{Fmt: &OpaqueFmt{Format: path.Join(parts...), Args: fargs}}
			}
			return StrV{S: path.Join(parts...)}
		},
		"path.Ext": func(in *Interp, st *State, fr *Frame, fn *ssa.Function, args []Value) Value {
			if sv, ok := args[0].(StrV); ok && sv.Fmt != nil {
				// extension of a formatted name is that of its format when no verb follows the last dot
				f := sv.Fmt.Format
				for i := len(f) - 1; i >= 0 && f[i] != '/'; i-- {
					if f[i] == '%' {
						break
					}
					if f[i] == '.' {
						return StrV{S: f[i:]}
					}
				}
				panic(unsupported("path.Ext of opaque string"))
			}
			if ps, ok := structArg(args); ok {
				for k := len(ps) - 1; k >= 0; k-- {
					if ps[k].Num != nil {
						continue
					}
					l := ps[k].Lit
					for i := len(l) - 1; i >= 0; i-- {
						if l[i] == '/' {
							return StrV{}
						}
						if l[i] == '.' {
							return normParts(append([]StrPart{{Lit: l[i:]}}, ps[k+1:]...))
						}
					}
				}
				return StrV{}
			}
			s := mustStr(args[0], "path.Ext")
			for i := len(s) - 1; i >= 0 && s[i] != '/'; i-- {
				if s[i] == '.' {
					return StrV{S: s[i:]}
				}
			}
			return StrV{}
		},
		"sort.Strings": func(in *Interp, st *State, fr *Frame, fn *ssa.Function, args []Value) Value {
			sl := args[0].(SliceV)
			n := in.concretize(st, sl.Len, 0, 4096)
			ss := make([]string, n)
			for i := range ss {
				ss[i] = mustStr(in.sliceElem(st, sl, int64(i)), "sort.Strings")
			}
			sort.Strings(ss)
			for i := range ss {
				in.store(st, PtrV{Obj: sl.Obj, Path: extPath(sl.Path, PathEl{Field: -1, Idx: Add(sl.Off, IntC(int64(i)))})}, StrV{S: ss[i]})
			}
			return TupleV{}
		},
		"(*sync.Mutex).Lock":     lockOp(true, false),
		"(*sync.Mutex).Unlock":   lockOp(false, false),
		"(*sync.RWMutex).Lock":   lockOp(true, false),
		"(*sync.RWMutex).Unlock": lockOp(false, false),
		"(*sync.RWMutex).RLock":   lockOp(true, true),
		"(*sync.RWMutex).RUnlock": lockOp(false, true),
		"(*strings.Builder).WriteString": builderOp(0),
		"(*strings.Builder).String":      builderOp(1),
		"(*strings.Builder).Len":         builderOp(2),
		"(*strings.Builder).Grow":        builderOp(3),
		"(*strings.Builder).WriteByte":   builderOp(4),
		"(*strings.Builder).WriteRune":   builderOp(5),
		"(*sync.WaitGroup).Add":   wgOp(0),
		"(*sync.WaitGroup).Done":  wgOp(1),
		"(*sync.WaitGroup).Wait":  wgOp(2),
		"(encoding/binary.bigEndian).Uint32": func(in *Interp, st *State, fr *Frame, fn *ssa.Function, args []Value) Value {
			return in.beUint(st, args[1].(SliceV), 4)
		},
		"(encoding/binary.bigEndian).Uint64": func(in *Interp, st *State, fr *Frame, fn *ssa.Function, args []Value) Value {
			return in.beUint(st, args[1].(SliceV), 8)
		},
		"(encoding/binary.bigEndian).Uint16": func(in *Interp, st *State, fr *Frame, fn *ssa.Function, args []Value) Value {
			return in.beUint(st, args[1].(SliceV), 2)
		},
	}
}

func (in *Interp) strSlice(st *State, ss []string) Value {
	e := make([]Value, len(ss))
	for i := range ss {
		e[i] = StrV{S: ss[i]}
	}
	if len(ss) == 0 {
		return SliceV{Obj: -1, Off: IntC(0), Len: IntC(0), Cap: IntC(0)}
	}
	id := st.alloc(&ArrayV{E: e})
	n := IntC(int64(len(ss)))
	return SliceV{Obj: id, Off: IntC(0), Len: n, Cap: n}
}

func (in *Interp) valSlice(st *State, vals []Value) Value {
	if len(vals) == 0 {
		return SliceV{Obj: -1, Off: IntC(0), Len: IntC(0), Cap: IntC(0)}
	}
	id := st.alloc(&ArrayV{E: append([]Value(nil), vals...)})
	n := IntC(int64(len(vals)))
	return SliceV{Obj: id, Off: IntC(0), Len: n, Cap: n}
}

func init() {
	s1 := func(f func(a string) Value) handler {
		return func(in *Interp, st *State, fr *Frame, fn *ssa.Function, args []Value) Value {
			return f(mustStr(args[0], fn.Name()))
		}
	}
	s2 := func(f func(a, b string) Value) handler {
		return func(in *Interp, st *State, fr *Frame, fn *ssa.Function, args []Value) Value {
			return f(mustStr(args[0], fn.Name()), mustStr(args[1], fn.Name()))
		}
	}
	more := map[string]handler{
		"strings.IndexByte": func(in *Interp, st *State, fr *Frame, fn *ssa.Function, args []Value) Value {
			return IntC(int64(strings.IndexByte(mustStr(args[0], "IndexByte"), byte(constI64(args[1], "IndexByte")))))
		},
		"strings.LastIndexByte": func(in *Interp, st *State, fr *Frame, fn *ssa.Function, args []Value) Value {
			return IntC(int64(strings.LastIndexByte(mustStr(args[0], "LastIndexByte"), byte(constI64(args[1], "LastIndexByte")))))
		},
		"strings.IndexRune": func(in *Interp, st *State, fr *Frame, fn *ssa.Function, args []Value) Value {
			return IntC(int64(strings.IndexRune(mustStr(args[0], "IndexRune"), rune(constI64(args[1], "IndexRune")))))
		},
		"strings.LastIndex": s2(func(a, b string) Value { return IntC(int64(strings.LastIndex(a, b))) }),
		"strings.Count":     s2(func(a, b string) Value { return IntC(int64(strings.Count(a, b))) }),
		"strings.EqualFold": s2(func(a, b string) Value { return BoolC(strings.EqualFold(a, b)) }),
		"strings.TrimSuffix": s2(func(a, b string) Value { return StrV{S: strings.TrimSuffix(a, b)} }),
		"strings.Trim":      s2(func(a, b string) Value { return StrV{S: strings.Trim(a, b)} }),
		"strings.TrimSpace": s1(func(a string) Value { return StrV{S: strings.TrimSpace(a)} }),
		"strings.ToLower":   s1(func(a string) Value { return StrV{S: strings.ToLower(a)} }),
		"strings.ToUpper":   s1(func(a string) Value { return StrV{S: strings.ToUpper(a)} }),
		"strings.ContainsRune": func(in *Interp, st *State, fr *Frame, fn *ssa.Function, args []Value) Value {
			return BoolC(strings.ContainsRune(mustStr(args[0], "ContainsRune"), rune(constI64(args[1], "ContainsRune"))))
		},
		"strings.ContainsAny": s2(func(a, b string) Value { return BoolC(strings.ContainsAny(a, b)) }),
		"strings.ReplaceAll": func(in *Interp, st *State, fr *Frame, fn *ssa.Function, args []Value) Value {
			if sv, ok := args[0].(StrV); ok && sv.Fmt != nil {
				// an already opaque string stays opaque (its content is never inspected)
				return sv
			}
			if sp, ok := structArg(args, 1); ok {
				// structured source: replace inside the literal parts (the pattern cannot occur inside a number)
				old := mustStr(args[1], "ReplaceAll")
				if !sepSafe(sp, old) {
					panic(unsupported("strings.ReplaceAll on a structured string with a pattern containing digits"))
				}
				rp, ok := partsOf(args[2])
				if !ok {
					panic(unsupported("strings.ReplaceAll: opaque replacement"))
				}
				var ps []StrPart
				for _, x := range sp {
					if x.Num != nil {
						ps = append(ps, x)
						continue
					}
					for i, piece := range strings.Split(x.Lit, old) {
						if i > 0 {
							ps = append(ps, rp...)
						}
						ps = append(ps, StrPart{Lit: piece})
					}
				}
				return normParts(ps)
			}
			src, old := mustStr(args[0], "ReplaceAll"), mustStr(args[1], "ReplaceAll")
			if rp, ok := partsOf(args[2]); ok && old != "" {
				if _, conc := concStr(args[2]); !conc {
					// a pattern instantiated with a symbolic number: structured string
					var ps []StrPart
					for i, piece := range strings.Split(src, old) {
						if i > 0 {
							ps = append(ps, rp...)
						}
						ps = append(ps, StrPart{Lit: piece})
					}
					return normParts(ps)
				}
			}
			if rv, ok := args[2].(StrV); ok && rv.Fmt != nil {
				if !strings.Contains(src, old) {
					return StrV{S: src}
				}
				// pattern instantiated with a non-concrete number: opaque formatted name
				return StrV{Fmt: &OpaqueFmt{Format: strings.ReplaceAll(src, old, "%v"), Args: rv.Fmt.Args}}
			}
			return StrV{S: strings.ReplaceAll(src, old, mustStr(args[2], "ReplaceAll"))}
		},
		"strings.Replace": func(in *Interp, st *State, fr *Frame, fn *ssa.Function, args []Value) Value {
			return StrV{S: strings.Replace(mustStr(args[0], "Replace"), mustStr(args[1], "Replace"), mustStr(args[2], "Replace"), int(constI64(args[3], "Replace")))}
		},
		"strings.Repeat": func(in *Interp, st *State, fr *Frame, fn *ssa.Function, args []Value) Value {
			return StrV{S: strings.Repeat(mustStr(args[0], "Repeat"), int(constI64(args[1], "Repeat")))}
		},
		"strings.Split": func(in *Interp, st *State, fr *Frame, fn *ssa.Function, args []Value) Value {
			if ps, ok := structArg(args, 1); ok {
				sep := mustStr(args[1], "Split")
				if !sepSafe(ps, sep) {
					panic(unsupported("strings.Split of a structured string with a separator containing digits"))
				}
				var vals []Value
				for _, piece := range splitParts(ps, sep, 0) {
					vals = append(vals, normParts(piece))
				}
				return in.valSlice(st, vals)
			}
			return in.strSlice(st, strings.Split(mustStr(args[0], "Split"), mustStr(args[1], "Split")))
		},
		"strings.Fields": func(in *Interp, st *State, fr *Frame, fn *ssa.Function, args []Value) Value {
			return in.strSlice(st, strings.Fields(mustStr(args[0], "Fields")))
		},
		"strings.Cut": func(in *Interp, st *State, fr *Frame, fn *ssa.Function, args []Value) Value {
			if ps, ok := structArg(args, 1); ok {
				sep := mustStr(args[1], "Cut")
				if !sepSafe(ps, sep) {
					panic(unsupported("strings.Cut of a structured string with a separator containing digits"))
				}
				pieces := splitParts(ps, sep, 2)
				if len(pieces) == 1 {
					return TupleV{args[0], StrV{}, False}
				}
				return TupleV{normParts(pieces[0]), normParts(pieces[1]), True}
			}
			a, b, ok := strings.Cut(mustStr(args[0], "Cut"), mustStr(args[1], "Cut"))
			return TupleV{StrV{S: a}, StrV{S: b}, BoolC(ok)}
		},
		"strings.Join": func(in *Interp, st *State, fr *Frame, fn *ssa.Function, args []Value) Value {
			sl := args[0].(SliceV)
			n := in.concretize(st, sl.Len, 0, 4096)
			ss := make([]string, n)
			structured := false
			for i := range ss {
				e := in.sliceElem(st, sl, int64(i))
				if c, ok := concStr(e); ok {
					ss[i] = c
				} else if _, ok := partsOf(e); ok {
					structured = true
				} else {
					mustStr(e, "strings.Join")
				}
			}
			if structured {
				sep := mustStr(args[1], "strings.Join")
				var ps []StrPart
				for i := range ss {
					if i > 0 {
						ps = append(ps, StrPart{Lit: sep})
					}
					ep, _ := partsOf(in.sliceElem(st, sl, int64(i)))
					ps = append(ps, ep...)
				}
				return normParts(ps)
			}
			return StrV{S: strings.Join(ss, mustStr(args[1], "strings.Join"))}
		},
		"strconv.ParseFloat": func(in *Interp, st *State, fr *Frame, fn *ssa.Function, args []Value) Value {
			if ps, ok := structArg(args); ok {
				if len(ps) == 1 && ps[0].Num != nil {
					return TupleV{in.rn(ToReal(ps[0].Num)), IfaceV{}}
				}
				panic(unsupported("strconv.ParseFloat of a structured string that is not a single number"))
			}
			f, err := strconv.ParseFloat(mustStr(args[0], "strconv.ParseFloat"), int(constI64(args[1], "ParseFloat bitSize")))
			if err != nil {
				site := in.posOf(fr.Block.Instrs[fr.PC], fr)
				id := st.alloc(OpaqueErr{Site: site, Msg: err.Error()})
				return TupleV{RealC(new(big.Rat)), IfaceV{T: opaqueErrType, V: PtrV{Obj: id}}}
			}
			if math.IsNaN(f) {
				panic(unsupported("strconv.ParseFloat: NaN"))
			}
			r := new(big.Rat)
			if r.SetFloat64(f) == nil {
				return TupleV{InfV{Neg: f < 0}, IfaceV{}}
			}
			return TupleV{RealC(r), IfaceV{}}
		},
		"net/url.QueryUnescape": func(in *Interp, st *State, fr *Frame, fn *ssa.Function, args []Value) Value {
			if ps, ok := structArg(args); ok {
				// escapes (%XX, +) lie inside literal parts: unescape each literal on its own
				np := make([]StrPart, len(ps))
				for i, x := range ps {
					np[i] = x
					if x.Num == nil && strings.ContainsAny(x.Lit, "%+") {
						if strings.HasSuffix(x.Lit, "%") || (len(x.Lit) >= 2 && x.Lit[len(x.Lit)-2] == '%') {
							panic(unsupported("url.QueryUnescape: escape sequence next to a symbolic number"))
						}
						u, err := url.QueryUnescape(x.Lit)
						if err != nil {
							site := in.posOf(fr.Block.Instrs[fr.PC], fr)
							id := st.alloc(OpaqueErr{Site: site, Msg: err.Error()})
							return TupleV{StrV{}, IfaceV{T: opaqueErrType, V: PtrV{Obj: id}}}
						}
						np[i] = StrPart{Lit: u}
					}
				}
				return TupleV{normParts(np), IfaceV{}}
			}
			r, err := url.QueryUnescape(mustStr(args[0], "url.QueryUnescape"))
			if err != nil {
				site := in.posOf(fr.Block.Instrs[fr.PC], fr)
				id := st.alloc(OpaqueErr{Site: site, Msg: err.Error()})
				return TupleV{StrV{}, IfaceV{T: opaqueErrType, V: PtrV{Obj: id}}}
			}
			return TupleV{StrV{S: r}, IfaceV{}}
		},
		"strconv.Atoi": func(in *Interp, st *State, fr *Frame, fn *ssa.Function, args []Value) Value {
			if ps, ok := structArg(args); ok {
				if len(ps) == 1 && ps[0].Num != nil {
					return TupleV{ps[0].Num, IfaceV{}}
				}
				panic(unsupported("strconv.Atoi of a structured string that is not a single number"))
			}
			v, err := strconv.Atoi(mustStr(args[0], "strconv.Atoi"))
			if err != nil {
				site := in.posOf(fr.Block.Instrs[fr.PC], fr)
				id := st.alloc(OpaqueErr{Site: site, Msg: err.Error()})
				return TupleV{IntC(0), IfaceV{T: opaqueErrType, V: PtrV{Obj: id}}}
			}
			return TupleV{IntC(int64(v)), IfaceV{}}
		},
	}
	for k, v := range more {
		intrinsics[k] = v
	}
	intrinsics["path/filepath.Ext"] = intrinsics["path.Ext"]
	intrinsics["path/filepath.Join"] = intrinsics["path.Join"]
}

func (in *Interp) beUint(st *State, s SliceV, n int64) Value {
	in.require(st, Le(IntC(n), s.Len), "index out of range")
	r := IntC(0)
	for i := int64(0); i < n; i++ {
		b := in.getPath(st, st.Heap[s.Obj], extPath(s.Path, PathEl{Field: -1, Idx: Add(s.Off, IntC(i))})).(*Term)
		r = Add(Mul(IntC(256), r), b)
	}
	return r
}

func lockKey(p PtrV) int { return p.Obj*1000 + len(p.Path)*37 + pathHash(p.Path) }

func pathHash(p []PathEl) int {
	h := 0
	for _, e := range p {
		h = h*31 + e.Field + 1
	}
	return h % 997
}

func lockOp(lock, read bool) handler {
	return func(in *Interp, st *State, fr *Frame, fn *ssa.Function, args []Value) Value {
		p, ok := args[0].(PtrV)
		if !ok || p.Obj < 0 {
			in.require(st, False, "nil mutex")
			panic(pathEnd{"panic"})
		}
		k := lockKey(p)
		site := in.posOf(fr.Block.Instrs[fr.PC], fr)
		if lock {
			if st.Mutex[k] {
				in.obligation(st, "lock:relock@"+site, "assert", site, False, "Lock on a mutex already held by this path (self-deadlock)")
				panic(pathEnd{"cut"})
			}
			st.Mutex[k] = true
			if st.LockEp == nil {
				st.LockEp = map[int]int{}
			}
			st.LockEp[k]++
			if st.RLocked == nil {
				st.RLocked = map[int]bool{}
			}
			st.RLocked[k] = read
		} else {
			if !st.Mutex[k] {
				in.obligation(st, "lock:unlock-free@"+site, "assert", site, False, "Unlock of a mutex that is not held")
				panic(pathEnd{"cut"})
			}
			st.Mutex[k] = false
			if st.RLocked != nil {
				st.RLocked[k] = false
			}
		}
		return TupleV{}
	}
}

// builderOp: strings.Builder as a ghost string per builder object (the real one uses unsafe). Structured and concrete
// pieces concatenate exactly; anything else makes the content opaque.
func builderOp(kind int) handler {
	return func(in *Interp, st *State, fr *Frame, fn *ssa.Function, args []Value) Value {
		p, ok := args[0].(PtrV)
		if !ok || p.Obj < 0 {
			in.require(st, False, "nil strings.Builder")
			panic(pathEnd{"panic"})
		}
		k := lockKey(p)
		cur := st.Builders[k]
		set := func(v StrV) {
			nb := make(map[int]StrV, len(st.Builders)+1)
			for kk, vv := range st.Builders {
				nb[kk] = vv
			}
			nb[k] = v
			st.Builders = nb
		}
		appendStr := func(add StrV) {
			cp, ok1 := partsOf(cur)
			ap, ok2 := partsOf(add)
			if ok1 && ok2 {
				set(normParts(append(append([]StrPart(nil), cp...), ap...)))
				return
			}
			var fargs []Value
			if cur.Fmt != nil && cur.Fmt.Format == "<builder>" {
				fargs = append(fargs, cur.Fmt.Args...)
			} else {
				fargs = append(fargs, cur)
			}
			set(StrV{Fmt: &OpaqueFmt{Format: "<builder>", Args: append(fargs, add)}})
		}
		switch kind {
		case 0:
			add := args[1].(StrV)
			appendStr(add)
			if c, ok := concStr(add); ok {
				return TupleV{IntC(int64(len(c))), IfaceV{}}
			}
			return TupleV{IntC(1), IfaceV{}}
		case 1:
			return cur
		case 2:
			c, ok := concStr(cur)
			if !ok {
				panic(unsupported("strings.Builder.Len of non-concrete content"))
			}
			return IntC(int64(len(c)))
		case 3:
			return TupleV{}
		case 4:
			appendStr(StrV{S: string(rune(constI64(args[1], "Builder.WriteByte")))})
			return IfaceV{}
		case 5:
			appendStr(StrV{S: string(rune(constI64(args[1], "Builder.WriteRune")))})
			return TupleV{IntC(1), IfaceV{}}
		}
		return TupleV{}
	}
}

// wgOp: ghost counter for sync.WaitGroup (single-goroutine model): Add(n), Done, Wait (must find the counter at 0,
// otherwise the path would block for ever).
func wgOp(kind int) handler {
	return func(in *Interp, st *State, fr *Frame, fn *ssa.Function, args []Value) Value {
		p, ok := args[0].(PtrV)
		if !ok || p.Obj < 0 {
			in.require(st, False, "nil WaitGroup")
			panic(pathEnd{"panic"})
		}
		if st.WG == nil {
			st.WG = map[int]int{}
		}
		k := lockKey(p)
		switch kind {
		case 0:
			st.WG[k] += int(constI64(args[1], "WaitGroup.Add"))
		case 1:
			st.WG[k]--
		case 2:
			if st.WG[k] != 0 {
				in.blocked(st, fr, fr.Block.Instrs[fr.PC], "WaitGroup.Wait with a non-zero counter")
			}
			return TupleV{}
		}
		if st.WG[k] < 0 {
			in.require(st, False, "sync: negative WaitGroup counter")
			panic(pathEnd{"panic"})
		}
		return TupleV{}
	}
}

func (in *Interp) isError(t types.Type) bool {
	if t == opaqueErrType {
		return true
	}
	errT := types.Universe.Lookup("error").Type().Underlying().(*types.Interface)
	return types.Implements(t, errT)
}

func (in *Interp) opaqueErrMethod(st *State, recv Value, name string) Value {
	oe := st.Heap[recv.(PtrV).Obj].(OpaqueErr)
	switch name {
	case "Error":
		return StrV{Fmt: &OpaqueFmt{Format: oe.Msg}}
	case "Unwrap":
		if oe.Wrapped != nil {
			return oe.Wrapped
		}
		return IfaceV{}
	}
	panic(unsupported("method " + name + " on opaque error"))
}

// goValue converts a concrete interpreter value (possibly boxed) to a Go value for fmt.
func goValue(v Value) (interface{}, bool) {
	switch x := v.(type) {
	case IfaceV:
		if x.T == nil {
			return nil, true
		}
		if b := basicOf(x.T); b != nil {
			if t, ok := x.V.(*Term); ok && t.IsConst() {
				switch {
				case b.Info()&types.IsBoolean != 0:
					return t.B, true
				case b.Info()&types.IsUnsigned != 0:
					if c, ok := t.ConstInt(); ok && c.IsUint64() {
						return c.Uint64(), true
					}
				case b.Info()&types.IsInteger != 0:
					if c, ok := t.ConstInt64(); ok {
						return c, true
					}
				case b.Info()&types.IsFloat != 0:
					f, _ := t.Rat.Float64()
					return f, true
				}
			}
			if s, ok := x.V.(StrV); ok {
				if cs, ok := concStr(s); ok {
					return cs, true
				}
			}
		}
		return nil, false
	}
	return nil, false
}
