package symex

import (
	"fmt"
	"os"
	"sort"
	"go/token"
	"go/types"
	"math/big"

	"golang.org/x/tools/go/ssa"
)

func (in *Interp) step(st *State, fr *Frame, ins ssa.Instruction) {
	switch x := ins.(type) {
	case *ssa.DebugRef:
	case *ssa.Alloc:
		id := st.alloc(zeroValue(x.Type().(*types.Pointer).Elem()))
		in.set(fr, x, PtrV{Obj: id})
	case *ssa.BinOp:
		in.set(fr, x, in.binop(st, fr, x))
	case *ssa.UnOp:
		in.set(fr, x, in.unop(st, fr, x))
	case *ssa.Phi:
		// all phis of a block are evaluated "simultaneously": compute from Prev using current regs.
		// Since phis are at the block start and each reads values defined in predecessors,
		// sequential evaluation is only wrong if one phi reads another phi of the same block;
		// handle by evaluating all phis at once on block entry (see jump).
		panic("phi reached in step (handled at jump)")
	case *ssa.Call:
		in.doCall(st, fr, x.Common(), fr.Info.index[x], false)
		return // doCall manages PC
	case *ssa.ChangeType:
		in.set(fr, x, in.get(st, fr, x.X))
	case *ssa.Convert:
		in.set(fr, x, in.convert(st, fr, in.get(st, fr, x.X), x.X.Type(), x.Type()))
	case *ssa.MultiConvert:
		in.set(fr, x, in.convert(st, fr, in.get(st, fr, x.X), x.X.Type(), x.Type()))
	case *ssa.ChangeInterface:
		in.set(fr, x, in.get(st, fr, x.X))
	case *ssa.MakeInterface:
		v := in.get(st, fr, x.X)
		in.set(fr, x, IfaceV{T: x.X.Type(), V: v})
	case *ssa.TypeAssert:
		in.set(fr, x, in.typeAssert(st, fr, x))
	case *ssa.Extract:
		t := in.get(st, fr, x.Tuple).(TupleV)
		in.set(fr, x, t[x.Index])
	case *ssa.Field:
		s := in.get(st, fr, x.X)
		sv, ok := s.(*StructV)
		if !ok {
			panic(unsupported(fmt.Sprintf("Field of %T", s)))
		}
		in.set(fr, x, sv.F[x.Field])
	case *ssa.FieldAddr:
		p := in.ptrOf(st, in.get(st, fr, x.X), "FieldAddr")
		if len(in.Cfg.Guards) > 0 {
			in.guardCheck(st, fr, x, p)
		}
		in.set(fr, x, PtrV{Obj: p.Obj, Path: extPath(p.Path, PathEl{Field: x.Field})})
	case *ssa.Index:
		a := in.get(st, fr, x.X)
		idx := in.term(st, fr, x.Index)
		switch av := a.(type) {
		case *ArrayV:
			in.require(st, And(Le(IntC(0), idx), Lt(idx, IntC(int64(len(av.E))))), "index out of range")
			in.set(fr, x, in.getPath(st, av, []PathEl{{Field: -1, Idx: idx}}))
		case StrV:
			in.set(fr, x, in.strIndex(st, av, idx))
		default:
			panic(unsupported(fmt.Sprintf("Index of %T", a)))
		}
	case *ssa.IndexAddr:
		in.set(fr, x, in.indexAddr(st, fr, x))
	case *ssa.Lookup:
		in.set(fr, x, in.lookup(st, fr, x))
	case *ssa.MakeMap:
		id := st.alloc(&MapObj{})
		in.set(fr, x, MapV{Obj: id})
	case *ssa.MapUpdate:
		in.mapUpdate(st, fr, x)
	case *ssa.MakeSlice:
		ln := in.term(st, fr, x.Len)
		cp := in.term(st, fr, x.Cap)
		in.require(st, And(Le(IntC(0), ln), Le(ln, cp)), "makeslice: len out of range")
		if _, isC := cp.ConstInt64(); !isC && in.Cfg.MaxAlloc > 0 && !st.Spec {
			// bound: paths allocating more than MaxAlloc elements are outside the claim
			lim := Le(cp, IntC(int64(in.Cfg.MaxAlloc)))
			in.Res.BranchQ++
			if in.Sol.CheckWith(lim) == Unsat {
				panic(pathEnd{"cut"})
			}
			in.assumeNote(st, lim, fmt.Sprintf("allocations of at most %d elements (larger ones are outside the claim)", in.Cfg.MaxAlloc))
		}
		hiB := int64(1 << 20)
		if in.Cfg.MaxAlloc > 0 {
			hiB = int64(in.Cfg.MaxAlloc)
		}
		n := in.concretize(st, ln, 0, hiB)
		var c int64
		if cv, isC := cp.ConstInt64(); isC {
			c = cv
		} else if _, known := st.Concr[cp.ID]; known || x.Len == x.Cap {
			c = in.concretize(st, cp, n, hiB)
		} else {
			// make(T, len, cap) with a symbolic capacity hint: the hint only affects when append reallocates,
			// which a freshly made (unaliased) slice cannot observe; use cap = len.
			in.stubSeen["assume: symbolic capacity hints of make() are ignored (cap = len)"] = true
			c = n
		}
		if in.Cfg.MaxAlloc > 0 && c > int64(in.Cfg.MaxAlloc) {
			in.stubSeen[fmt.Sprintf("assume: allocations of at most %d elements (larger ones are outside the claim)", in.Cfg.MaxAlloc)] = true
			panic(pathEnd{"cut"})
		}
		if c > 4096 {
			panic(unsupported(fmt.Sprintf("make slice with cap %d exceeds materialisation limit", c)))
		}
		elem := x.Type().Underlying().(*types.Slice).Elem()
		e := make([]Value, c)
		if c > 0 {
			z := zeroValue(elem)
			for i := range e {
				e[i] = z
			}
		}
		id := st.alloc(&ArrayV{E: e})
		in.set(fr, x, SliceV{Obj: id, Off: IntC(0), Len: IntC(n), Cap: IntC(c)})
	case *ssa.Slice:
		in.set(fr, x, in.sliceOp(st, fr, x))
	case *ssa.SliceToArrayPointer:
		s := in.get(st, fr, x.X).(SliceV)
		n := x.Type().(*types.Pointer).Elem().Underlying().(*types.Array).Len()
		in.require(st, Le(IntC(n), s.Len), "slice to array pointer: length")
		off, ok := in.idxConst(st, s.Off)
		if !ok || off != 0 {
			panic(unsupported("SliceToArrayPointer with offset"))
		}
		in.set(fr, x, PtrV{Obj: s.Obj, Path: s.Path})
	case *ssa.MakeClosure:
		fn := x.Fn.(*ssa.Function)
		env := make([]Value, len(x.Bindings))
		for i, b := range x.Bindings {
			env[i] = in.get(st, fr, b)
		}
		in.set(fr, x, FuncV{Fn: fn, Env: env})
	case *ssa.Range:
		in.set(fr, x, in.rangeInit(st, fr, x))
	case *ssa.Next:
		in.set(fr, x, in.next(st, fr, x))
	case *ssa.Store:
		p := in.ptrOf(st, in.get(st, fr, x.Addr), "Store")
		if st.Thread != 0 {
			in.access(st, fr, x, p.Obj, p.Path, true)
		}
		in.store(st, p, in.get(st, fr, x.Val))
	case *ssa.If:
		in.doIf(st, fr, x)
		return
	case *ssa.Jump:
		in.jump(st, fr, fr.Block.Succs[0])
		return
	case *ssa.Return:
		in.doReturn(st, fr, x)
		return
	case *ssa.Panic:
		site := in.posOf(x, fr)
		v := in.get(st, fr, x.X)
		msg := "explicit panic"
		if iv, ok := v.(IfaceV); ok {
			if s, ok := iv.V.(StrV); ok {
				msg = "explicit panic: " + s.S
			}
		}
		if fr.InitMode {
			panic(unsupported("panic in init"))
		}
		if in.Cfg.PanicMode == "assume" {
			panic(pathEnd{"cut"})
		}
		in.obligation(st, "panic:"+msg+"@"+site, "panic", site, False, msg)
		panic(pathEnd{"panic"})
	case *ssa.Defer:
		in.doDefer(st, fr, x)
	case *ssa.RunDefers:
		if n := len(fr.Defers); n > 0 {
			d := fr.Defers[n-1]
			fr.Defers = fr.Defers[:n-1]
			in.invoke(st, fr, d.fn, d.args, -1, true)
			return
		}
	case *ssa.Go:
		in.doGo(st, fr, x)
		return
	case *ssa.Select:
		in.set(fr, x, in.doSelect(st, fr, x))
	case *ssa.Send:
		in.chanSend(st, fr, x, in.get(st, fr, x.Chan), in.get(st, fr, x.X))
	case *ssa.MakeChan:
		in.set(fr, x, in.makeChan(st, fr, x))
	default:
		panic(unsupported(fmt.Sprintf("instruction %T", ins)))
	}
	fr.PC++
}

func (in *Interp) jump(st *State, fr *Frame, to *ssa.BasicBlock) {
	if fr.Info.loopHeads[to] {
		fr.Visits[to]++
		if in.Cfg.Unwind > 0 && fr.Visits[to] > in.Cfg.Unwind {
			site := fr.Fn.String()
			if len(to.Instrs) > 0 {
				site = in.posOf(to.Instrs[len(to.Instrs)-1], fr)
			}
			key := fmt.Sprintf("%s (bound %d)", site, in.Cfg.Unwind)
			if !in.unwindSeen[key] {
				in.unwindSeen[key] = true
				in.Res.Unwinds = append(in.Res.Unwinds, key)
				// witness
				in.Res.OblQ++
				_, model := in.Sol.ModelWith(st.Inputs)
				in.Res.Candidates = append(in.Res.Candidates, Candidate{ID: "unwind@" + site, Kind: "unwind", Site: site, Model: model, PCSize: len(st.PC)})
			}
			panic(pathEnd{"cut"})
		}
	}
	from := fr.Block
	fr.Prev = from
	fr.Block = to
	fr.PC = 0
	// evaluate phis simultaneously
	var idx = -1
	for i, p := range to.Preds {
		if p == from {
			idx = i
			break
		}
	}
	var vals []Value
	n := 0
	for _, ins := range to.Instrs {
		phi, ok := ins.(*ssa.Phi)
		if !ok {
			break
		}
		vals = append(vals, in.get(st, fr, phi.Edges[idx]))
		n++
	}
	for i := 0; i < n; i++ {
		in.set(fr, to.Instrs[i].(*ssa.Phi), vals[i])
	}
	fr.PC = n
}

// decide resolves a boolean condition inside an instruction, forking if both values are feasible.
func (in *Interp) decide(st *State, c *Term) bool {
	if b, ok := c.ConstBool(); ok {
		return b
	}
	if v, ok := st.Concr[c.ID]; ok {
		return v != 0
	}
	if v, ok := st.Concr[Not(c).ID]; ok {
		return v == 0
	}
	if st.Spec {
		panic(specAbort{"decide"})
	}
	in.Res.BranchQ++
	rt := in.Sol.CheckWith(c)
	if rt == Unsat {
		st.Concr[c.ID] = 0
		return false
	}
	in.Res.BranchQ++
	rf := in.Sol.CheckWith(Not(c))
	if rf == Unsat {
		st.Concr[c.ID] = 1
		return true
	}
	if rt == Unknown || rf == Unknown {
		st.Approx = true
	}
	id := c.ID
	panic([]alternative{
		{cond: c, apply: func(s *State) { s.Concr[id] = 1 }},
		{cond: Not(c), apply: func(s *State) { s.Concr[id] = 0 }},
	})
}

func (in *Interp) doIf(st *State, fr *Frame, x *ssa.If) {
	c := in.term(st, fr, x.Cond)
	if fr.InitMode {
		b, ok := c.ConstBool()
		if !ok {
			panic(unsupported("symbolic branch in init"))
		}
		if b {
			in.jump(st, fr, fr.Block.Succs[0])
		} else {
			in.jump(st, fr, fr.Block.Succs[1])
		}
		return
	}
	if _, isConst := c.ConstBool(); !isConst {
		if _, known := st.Concr[c.ID]; !known {
			if in.tryIfConvert(st, fr, x, c) {
				return
			}
		}
	}
	b := in.decide(st, c)
	if b {
		in.jump(st, fr, fr.Block.Succs[0])
	} else {
		in.jump(st, fr, fr.Block.Succs[1])
	}
}

func (in *Interp) doReturn(st *State, fr *Frame, x *ssa.Return) {
	var res Value
	switch len(x.Results) {
	case 0:
		res = TupleV{}
	case 1:
		res = in.get(st, fr, x.Results[0])
	default:
		t := make(TupleV, len(x.Results))
		for i, r := range x.Results {
			t[i] = in.get(st, fr, r)
		}
		res = t
	}
	st.Frames = st.Frames[:len(st.Frames)-1]
	if len(st.Frames) == 0 {
		return
	}
	caller := st.top()
	if fr.Discard {
		return // RunDefers re-executes
	}
	if fr.RetReg >= 0 {
		caller.Regs[fr.RetReg] = res
	}
	caller.PC++
}

func (in *Interp) doDefer(st *State, fr *Frame, x *ssa.Defer) {
	cc := x.Common()
	fv, args := in.resolveCall(st, fr, cc)
	fr.Defers = append(fr.Defers, deferred{fn: fv, args: args, call: cc})
}

// resolveCall evaluates the callee and arguments of a call.
func (in *Interp) resolveCall(st *State, fr *Frame, cc *ssa.CallCommon) (FuncV, []Value) {
	args := make([]Value, 0, len(cc.Args)+1)
	var fv FuncV
	if cc.IsInvoke() {
		recv := in.get(st, fr, cc.Value)
		iv, ok := recv.(IfaceV)
		if !ok {
			if p, ok := recv.(PoisonV); ok {
				panic(unsupported("method call on opaque value: " + p.Why + " ." + cc.Method.Name()))
			}
			panic(unsupported(fmt.Sprintf("invoke on %T", recv)))
		}
		if iv.T == nil {
			in.require(st, False, "nil interface method call")
			panic(pathEnd{"panic"})
		}
		if iv.T == opaqueErrType {
			fv = FuncV{Builtin: nil, Fn: nil, HasRecv: true, Recv: iv.V}
			fv.Env = []Value{StrV{S: cc.Method.Name()}}
			return fv, nil
		}
		m := in.Prog.LookupMethod(iv.T, cc.Method.Pkg(), cc.Method.Name())
		if m == nil {
			panic(unsupported(fmt.Sprintf("method %s not found on %s", cc.Method.Name(), iv.T)))
		}
		fv = FuncV{Fn: m}
		args = append(args, iv.V)
	} else {
		v := in.get(st, fr, cc.Value)
		f, ok := v.(FuncV)
		if !ok {
			if p, ok := v.(PoisonV); ok {
				panic(unsupported("call of opaque function value: " + p.Why))
			}
			panic(unsupported(fmt.Sprintf("call of %T", v)))
		}
		if f.Nil {
			in.require(st, False, "call of nil function")
			panic(pathEnd{"panic"})
		}
		fv = f
	}
	for _, a := range cc.Args {
		args = append(args, in.get(st, fr, a))
	}
	return fv, args
}

func (in *Interp) doCall(st *State, fr *Frame, cc *ssa.CallCommon, retReg int, discard bool) {
	fv, args := in.resolveCall(st, fr, cc)
	in.invoke(st, fr, fv, args, retReg, discard)
}

// invoke calls fv. For intrinsics/builtins the result is stored and PC advanced here.
func (in *Interp) invoke(st *State, fr *Frame, fv FuncV, args []Value, retReg int, discard bool) {
	finish := func(res Value) {
		if discard {
			return
		}
		if retReg >= 0 {
			fr.Regs[retReg] = res
		}
		fr.PC++
	}
	if fv.Builtin != nil {
		finish(in.builtin(st, fr, fv.Builtin, args))
		return
	}
	if fv.Fn == nil && fv.HasRecv {
		// method on opaque error
		name := fv.Env[0].(StrV).S
		finish(in.opaqueErrMethod(st, fv.Recv, name))
		return
	}
	fn := fv.Fn
	if fv.HasRecv {
		args = append([]Value{fv.Recv}, args...)
	}
	if h := in.intrinsic(fn); h != nil {
		in.stubSeen[fn.String()] = true
		var rd *redirect
		func() {
			defer func() {
				if r := recover(); r != nil {
					if x, ok := r.(redirect); ok {
						rd = &x
						return
					}
					panic(r)
				}
			}()
			finish(h(in, st, fr, fn, args))
		}()
		if rd == nil {
			return
		}
		fn, args = rd.fn, rd.args
		fv = FuncV{Fn: fn}
	}
	if fr.InitMode {
		// opaque result
		sig := fn.Signature
		var res Value
		switch sig.Results().Len() {
		case 0:
			res = TupleV{}
		case 1:
			res = PoisonV{"result of " + fn.String() + " in package init"}
		default:
			t := make(TupleV, sig.Results().Len())
			for i := range t {
				t[i] = PoisonV{"result of " + fn.String() + " in package init"}
			}
			res = t
		}
		finish(res)
		return
	}
	if len(st.Frames) > 200 {
		panic(unsupported("call depth exceeded"))
	}
	nf := in.newFrame(fn, args, fv.Env)
	nf.RetReg = retReg
	nf.Discard = discard
	st.Frames = append(st.Frames, nf)
}

// ---------------------------------------------------------------------------
// arithmetic

func pow2(k uint) *big.Int { return new(big.Int).Lsh(big.NewInt(1), k) }

func (in *Interp) goDiv(st *State, a, b *Term) *Term {
	if bc, ok := b.ConstInt(); ok {
		if bc.Sign() > 0 {
			if a.Lo != nil && a.Lo.Sign() >= 0 {
				return EDiv(a, b)
			}
			if a.Hi != nil && a.Hi.Sign() <= 0 {
				return Neg(EDiv(Neg(a), b))
			}
			return Ite(Ge(a, IntC(0)), EDiv(a, b), Neg(EDiv(Neg(a), b)))
		}
		if bc.Sign() < 0 {
			return Neg(in.goDiv(st, a, Neg(b)))
		}
	}
	if b.Lo != nil && b.Lo.Sign() > 0 {
		if a.Lo != nil && a.Lo.Sign() >= 0 {
			return EDiv(a, b)
		}
		return Ite(Ge(a, IntC(0)), EDiv(a, b), Neg(EDiv(Neg(a), b)))
	}
	absA := Ite(Ge(a, IntC(0)), a, Neg(a))
	absB := Ite(Ge(b, IntC(0)), b, Neg(b))
	q := EDiv(absA, absB)
	same := BoolEq(Ge(a, IntC(0)), Ge(b, IntC(0)))
	return Ite(same, q, Neg(q))
}

func (in *Interp) goRem(st *State, a, b *Term) *Term {
	if a.Lo != nil && a.Lo.Sign() >= 0 && b.Lo != nil && b.Lo.Sign() > 0 {
		return EMod(a, b)
	}
	return Sub(a, Mul(b, in.goDiv(st, a, b)))
}

func isPow2Minus1(c *big.Int) (uint, bool) {
	if c.Sign() < 0 {
		return 0, false
	}
	n := new(big.Int).Add(c, big.NewInt(1))
	if n.Sign() > 0 && new(big.Int).And(n, c).Sign() == 0 {
		return uint(n.BitLen() - 1), true
	}
	return 0, false
}

func trailingZeros(c *big.Int) uint {
	if c.Sign() == 0 {
		return 0
	}
	return c.TrailingZeroBits()
}

// multipleOfPow2 returns the largest k such that t is provably a multiple of 2^k (syntactic).
func multipleOfPow2(t *Term) uint {
	if c, ok := t.ConstInt(); ok {
		if c.Sign() == 0 {
			return 64
		}
		return trailingZeros(new(big.Int).Abs(c))
	}
	switch t.Op {
	case "*":
		return multipleOfPow2(t.Args[0]) + multipleOfPow2(t.Args[1])
	case "+", "-":
		m := uint(64)
		for _, x := range t.Args {
			if k := multipleOfPow2(x); k < m {
				m = k
			}
		}
		return m
	case "ite":
		a, b := multipleOfPow2(t.Args[1]), multipleOfPow2(t.Args[2])
		if a < b {
			return a
		}
		return b
	}
	return 0
}

func (in *Interp) bitAnd(st *State, a, b *Term) *Term {
	ac, aok := a.ConstInt()
	bc, bok := b.ConstInt()
	if aok && bok {
		return BigC(new(big.Int).And(ac, bc))
	}
	if aok {
		a, b, ac, bc, aok, bok = b, a, bc, ac, bok, aok
	}
	if bok {
		if bc.Sign() == 0 {
			return IntC(0)
		}
		if k, ok := isPow2Minus1(bc); ok {
			return EMod(a, BigC(pow2(k)))
		}
		// a < lowest set bit of mask and a>=0 -> 0
		if a.Lo != nil && a.Lo.Sign() >= 0 && a.Hi != nil {
			low := pow2(trailingZeros(bc))
			if a.Hi.Cmp(new(big.Rat).SetInt(low)) < 0 {
				return IntC(0)
			}
		}
		// single bit test: (a div 2^k) mod 2 * 2^k
		if bc.Sign() > 0 && new(big.Int).And(bc, new(big.Int).Sub(bc, big.NewInt(1))).Sign() == 0 {
			k := trailingZeros(bc)
			return Mul(BigC(bc), EMod(EDiv(a, BigC(pow2(k))), IntC(2)))
		}
		// contiguous mask (2^h - 2^l): ((a div 2^l) mod 2^(h-l)) * 2^l
		l := trailingZeros(bc)
		sh := new(big.Int).Rsh(bc, l)
		if k, ok := isPow2Minus1(sh); ok {
			return Mul(BigC(pow2(l)), EMod(EDiv(a, BigC(pow2(l))), BigC(pow2(k))))
		}
	}
	// both symbolic and non-negative: sound over-approximation  0 <= a&b <= min(a,b)  through a fresh variable
	if !aok && !bok && st != nil && !st.Spec && in.Cfg.Fixed == nil && in.provablyNonNeg(st, a) && in.provablyNonNeg(st, b) {
		hi := rmin(a.Hi, b.Hi)
		if a.Hi == nil {
			hi = b.Hi
		} else if b.Hi == nil {
			hi = a.Hi
		}
		in.freshN++
		r := Var(SInt, fmt.Sprintf("band_%d", in.freshN), new(big.Rat), hi)
		in.stubSeen["assume: x&y over-approximated by a fresh value in [0, min(x,y)]"] = true
		in.Sol.Assert(mk(SBool, "<=", IntC(0), r))
		in.Sol.Assert(mk(SBool, "<=", r, a))
		in.Sol.Assert(mk(SBool, "<=", r, b))
		return r
	}
	panic(unsupported(fmt.Sprintf("bitwise AND of symbolic operands %s [%v,%v] & %s [%v,%v]", clip(a.String(), 120), a.Lo, a.Hi, clip(b.String(), 120), b.Lo, b.Hi)))
}

func (in *Interp) bitOr(st *State, a, b *Term) *Term {
	ac, aok := a.ConstInt()
	bc, bok := b.ConstInt()
	if aok && bok {
		return BigC(new(big.Int).Or(ac, bc))
	}
	if aok && ac.Sign() == 0 {
		return b
	}
	if bok && bc.Sign() == 0 {
		return a
	}
	// disjoint bits: one is a multiple of 2^k and the other lies in [0,2^k)
	try := func(x, y *Term) *Term {
		k := multipleOfPow2(x)
		if k > 0 && y.Lo != nil && y.Lo.Sign() >= 0 && y.Hi != nil && y.Hi.Cmp(new(big.Rat).SetInt(pow2(k))) < 0 {
			return Add(x, y)
		}
		return nil
	}
	if r := try(a, b); r != nil {
		return r
	}
	if r := try(b, a); r != nil {
		return r
	}
	// solver-assisted: x is a multiple of 2^k and 0 <= y < 2^k on this path
	if st != nil && !st.Spec && in.Cfg.Fixed == nil {
		for _, pr := range [][2]*Term{{a, b}, {b, a}} {
			x, y := pr[0], pr[1]
			k := multipleOfPow2(x)
			if k == 0 {
				continue
			}
			if k > 62 {
				k = 62
			}
			in.Res.BranchQ++
			if in.Sol.CheckWith(Or(Lt(y, IntC(0)), Ge(y, BigC(pow2(k))))) == Unsat {
				return Add(x, y)
			}
		}
	}
	panic(unsupported("bitwise OR of symbolic operands"))
}

func (in *Interp) binop(st *State, fr *Frame, x *ssa.BinOp) Value {
	a := in.get(st, fr, x.X)
	b := in.get(st, fr, x.Y)
	switch x.Op {
	case token.EQL:
		return in.valEq(a, b)
	case token.NEQ:
		return Not(in.valEq(a, b))
	}
	xt := x.X.Type().Underlying()
	bt, _ := xt.(*types.Basic)
	if bt == nil {
		panic(unsupported(fmt.Sprintf("binop %s on %s", x.Op, xt)))
	}
	switch {
	case bt.Info()&types.IsString != 0:
		as, bs := a.(StrV), b.(StrV)
		if (as.Parts != nil || bs.Parts != nil || as.Fmt != nil || bs.Fmt != nil) && x.Op == token.ADD {
			ap, ok1 := partsOf(as)
			bp, ok2 := partsOf(bs)
			if ok1 && ok2 {
				return normParts(append(append([]StrPart(nil), ap...), bp...))
			}
		}
		if as.Atom != nil || bs.Atom != nil || as.Fmt != nil || bs.Fmt != nil || as.Bytes != nil || bs.Bytes != nil || as.Parts != nil || bs.Parts != nil {
			panic(unsupported("string op " + x.Op.String() + " on non-concrete strings"))
		}
		switch x.Op {
		case token.ADD:
			return StrV{S: as.S + bs.S}
		case token.LSS:
			return BoolC(as.S < bs.S)
		case token.LEQ:
			return BoolC(as.S <= bs.S)
		case token.GTR:
			return BoolC(as.S > bs.S)
		case token.GEQ:
			return BoolC(as.S >= bs.S)
		}
	case bt.Info()&types.IsBoolean != 0:
		at, btm := a.(*Term), b.(*Term)
		switch x.Op {
		case token.AND, token.LAND:
			return And(at, btm)
		case token.OR, token.LOR:
			return Or(at, btm)
		}
	case bt.Info()&types.IsFloat != 0:
		return in.floatBinop(st, x.Op, a, b, bt)
	case bt.Info()&types.IsInteger != 0:
		at, ok1 := a.(*Term)
		btm, ok2 := b.(*Term)
		if !ok1 || !ok2 {
			panic(unsupported(fmt.Sprintf("int binop on %T,%T", a, b)))
		}
		rt := basicOf(x.Type())
		switch x.Op {
		case token.ADD:
			return in.wrap(st, Add(at, btm), rt)
		case token.SUB:
			return in.wrap(st, Sub(at, btm), rt)
		case token.MUL:
			return in.wrap(st, Mul(at, btm), rt)
		case token.QUO:
			in.require(st, Ne(btm, IntC(0)), "integer divide by zero")
			return in.wrap(st, in.goDiv(st, at, btm), rt)
		case token.REM:
			in.require(st, Ne(btm, IntC(0)), "integer divide by zero")
			return in.wrap(st, in.goRem(st, at, btm), rt)
		case token.LSS:
			return Lt(at, btm)
		case token.LEQ:
			return Le(at, btm)
		case token.GTR:
			return Gt(at, btm)
		case token.GEQ:
			return Ge(at, btm)
		case token.AND:
			return in.wrap(st, in.bitAnd(st, at, btm), rt)
		case token.OR:
			return in.wrap(st, in.bitOr(st, at, btm), rt)
		case token.XOR:
			ac, aok := at.ConstInt()
			bc, bok := btm.ConstInt()
			if aok && bok {
				return in.wrap(st, BigC(new(big.Int).Xor(ac, bc)), rt)
			}
			panic(unsupported("XOR of symbolic operands"))
		case token.AND_NOT:
			if bc, ok := btm.ConstInt(); ok {
				bits, _ := intBits(rt)
				mask := new(big.Int).Sub(pow2(uint(bits)), big.NewInt(1))
				nb := new(big.Int).AndNot(mask, new(big.Int).And(bc, mask))
				// operate on the unsigned image
				ua := EMod(at, BigC(pow2(uint(bits))))
				return in.wrap(st, in.bitAnd(st, ua, BigC(nb)), rt)
			}
			panic(unsupported("AND_NOT of symbolic operand"))
		case token.SHL:
			k := in.concretize(st, btm, 0, 64)
			in.require(st, Ge(btm, IntC(0)), "negative shift amount")
			if k >= 64 {
				return IntC(0)
			}
			return in.wrap(st, Mul(BigC(pow2(uint(k))), at), rt)
		case token.SHR:
			k := in.concretize(st, btm, 0, 64)
			in.require(st, Ge(btm, IntC(0)), "negative shift amount")
			if k >= 64 {
				k = 63
			}
			return EDiv(at, BigC(pow2(uint(k))))
		}
	}
	panic(unsupported(fmt.Sprintf("binop %s on %s", x.Op, xt)))
}

func (in *Interp) unop(st *State, fr *Frame, x *ssa.UnOp) Value {
	v := in.get(st, fr, x.X)
	switch x.Op {
	case token.MUL: // load
		p := in.ptrOf(st, v, "load")
		if st.Thread != 0 {
			in.access(st, fr, x, p.Obj, p.Path, false)
		}
		return in.load(st, p)
	case token.NOT:
		return Not(v.(*Term))
	case token.SUB:
		if iv, ok := v.(InfV); ok {
			return InfV{Neg: !iv.Neg}
		}
		t := v.(*Term)
		bt := basicOf(x.Type())
		if bt.Info()&types.IsFloat != 0 {
			return Neg(t)
		}
		return in.wrap(st, Neg(t), bt)
	case token.XOR:
		t := v.(*Term)
		bt := basicOf(x.Type())
		// ^x = -x-1 (two's complement), then wrap
		return in.wrap(st, Sub(Neg(t), IntC(1)), bt)
	case token.ARROW:
		elem := x.X.Type().Underlying().(*types.Chan).Elem()
		rv, ok := in.chanRecv(st, fr, x, v, elem)
		if x.CommaOk {
			return TupleV{rv, BoolC(ok)}
		}
		return rv
	}
	panic(unsupported("unop " + x.Op.String()))
}

// ---------------------------------------------------------------------------
// floats: rounded-real abstraction

func (in *Interp) rn(e *Term) *Term {
	if e.IsConst() {
		f, _ := e.Rat.Float64()
		r := new(big.Rat)
		if r.SetFloat64(f) == nil {
			panic(unsupported("float overflow to infinity in constant folding"))
		}
		return RealC(r)
	}
	if e.IsIntReal && e.Lo != nil && e.Hi != nil && e.Lo.Cmp(new(big.Rat).Neg(two53)) >= 0 && e.Hi.Cmp(two53) <= 0 {
		return e // integers up to 2^53 are exact
	}
	if e.Op == "@RN" {
		return e
	}
	t := App(SReal, "RN", e)
	in.rnUsed = true
	if os.Getenv("GOSYMEX_DEBUG_RN") != "" {
		lo, hi := "nil", "nil"
		if e.Lo != nil {
			lo = e.Lo.FloatString(3)
		}
		if e.Hi != nil {
			hi = e.Hi.FloatString(3)
		}
		fmt.Fprintf(os.Stderr, "RN arg bounds [%s, %s] intreal=%v: %s\n", lo, hi, e.IsIntReal, clip(e.String(), 300))
	}
	if t.Lo == nil && t.Hi == nil {
		// monotone: bounds carry over through rounding of the bounds themselves (outward by one ulp-ish)
		if e.Lo != nil {
			f, _ := e.Lo.Float64()
			t.Lo = new(big.Rat).SetFloat64(f)
			if t.Lo != nil && t.Lo.Cmp(e.Lo) > 0 {
				// rounding went up; still a valid lower bound for RN(x), x>=e.Lo by monotonicity
			}
		}
		if e.Hi != nil {
			f, _ := e.Hi.Float64()
			t.Hi = new(big.Rat).SetFloat64(f)
		}
	}
	return t
}

func (in *Interp) floatBinop(st *State, op token.Token, a, b Value, bt *types.Basic) Value {
	if bt.Kind() == types.Float32 {
		panic(unsupported("float32 arithmetic"))
	}
	ai, aInf := a.(InfV)
	bi, bInf := b.(InfV)
	if aInf || bInf {
		switch op {
		case token.LSS, token.LEQ, token.GTR, token.GEQ:
			// compare with infinities
			var av, bv int
			if aInf {
				av = 1
				if ai.Neg {
					av = -1
				}
			}
			if bInf {
				bv = 1
				if bi.Neg {
					bv = -1
				}
			}
			switch op {
			case token.LSS:
				return BoolC(av < bv)
			case token.LEQ:
				return BoolC(av <= bv && !(av == 0 && bv == 0))
			case token.GTR:
				return BoolC(av > bv)
			case token.GEQ:
				return BoolC(av >= bv && !(av == 0 && bv == 0))
			}
		}
		panic(unsupported("arithmetic on infinity"))
	}
	at, ok1 := a.(*Term)
	btm, ok2 := b.(*Term)
	if !ok1 || !ok2 {
		panic(unsupported(fmt.Sprintf("float binop on %T,%T", a, b)))
	}
	switch op {
	case token.ADD:
		return in.rn(Add(at, btm))
	case token.SUB:
		return in.rn(Sub(at, btm))
	case token.MUL:
		return in.rn(Mul(at, btm))
	case token.QUO:
		if bc, ok := btm.ConstBool(); ok && bc {
		}
		if btm.IsConst() && btm.Rat.Sign() == 0 {
			panic(unsupported("float division by constant zero"))
		}
		if !btm.IsConst() {
			// x/0 yields Inf/NaN in Go, no panic; we do not model it
			in.assumeNote(st, Ne(btm, RealC(new(big.Rat))), "float divisor assumed non-zero")
		}
		return in.rn(RDiv(at, btm))
	case token.LSS:
		return cmpWithShadow("<", at, btm)
	case token.LEQ:
		return cmpWithShadow("<=", at, btm)
	case token.GTR:
		return cmpWithShadow("<", btm, at)
	case token.GEQ:
		return cmpWithShadow("<=", btm, at)
	}
	panic(unsupported("float op " + op.String()))
}

func (in *Interp) assumeNote(st *State, c *Term, note string) {
	in.stubSeen["assume: "+note] = true
	in.assume(st, c)
}

// truncToInt converts a real term to an Int by truncation toward zero.
func truncToInt(f *Term) *Term {
	if f.Lo != nil && f.Lo.Sign() >= 0 {
		return floorWithShadow(f)
	}
	if f.Hi != nil && f.Hi.Sign() <= 0 {
		return Neg(floorWithShadow(Neg(f)))
	}
	return Ite(cmpWithShadow("<=", RealC(new(big.Rat)), f), floorWithShadow(f), Neg(floorWithShadow(Neg(f))))
}

func (in *Interp) convert(st *State, fr *Frame, v Value, from, to types.Type) Value {
	fu, tu := from.Underlying(), to.Underlying()
	fb, _ := fu.(*types.Basic)
	tb, _ := tu.(*types.Basic)
	switch {
	case fb != nil && tb != nil:
		fi, ff, fs := fb.Info()&types.IsInteger != 0, fb.Info()&types.IsFloat != 0, fb.Info()&types.IsString != 0
		ti, tf, ts := tb.Info()&types.IsInteger != 0, tb.Info()&types.IsFloat != 0, tb.Info()&types.IsString != 0
		switch {
		case fi && ti:
			return in.wrap(st, v.(*Term), tb)
		case fi && tf:
			if tb.Kind() == types.Float32 {
				panic(unsupported("float32 conversion"))
			}
			return in.rn(ToReal(v.(*Term)))
		case ff && ti:
			if _, ok := v.(InfV); ok {
				panic(unsupported("conversion of infinity to integer"))
			}
			return in.wrap(st, truncToInt(v.(*Term)), tb)
		case ff && tf:
			if tb.Kind() == types.Float32 || fb.Kind() == types.Float32 {
				panic(unsupported("float32 conversion"))
			}
			return v
		case fs && ts:
			return v
		case fi && ts:
			t := v.(*Term)
			if c, ok := t.ConstInt64(); ok {
				return StrV{S: string(rune(c))}
			}
			panic(unsupported("symbolic rune to string"))
		case fb.Kind() == types.UnsafePointer || tb.Kind() == types.UnsafePointer:
			return v
		}
	case fb != nil && fb.Info()&types.IsString != 0:
		// string -> []byte / []rune
		if sl, ok := tu.(*types.Slice); ok {
			s := v.(StrV)
			eb := basicOf(sl.Elem())
			if eb != nil && eb.Kind() == types.Uint8 {
				bs := strBytes(s)
				e := make([]Value, len(bs))
				for i := range bs {
					e[i] = bs[i]
				}
				id := st.alloc(&ArrayV{E: e})
				n := IntC(int64(len(e)))
				return SliceV{Obj: id, Off: IntC(0), Len: n, Cap: n}
			}
			if eb != nil && eb.Kind() == types.Int32 && s.Atom == nil && s.Fmt == nil && s.Bytes == nil && s.Parts == nil {
				rs := []rune(s.S)
				e := make([]Value, len(rs))
				for i := range rs {
					e[i] = IntC(int64(rs[i]))
				}
				id := st.alloc(&ArrayV{E: e})
				n := IntC(int64(len(e)))
				return SliceV{Obj: id, Off: IntC(0), Len: n, Cap: n}
			}
		}
	case tb != nil && tb.Info()&types.IsString != 0:
		if sl, ok := fu.(*types.Slice); ok {
			eb := basicOf(sl.Elem())
			s := v.(SliceV)
			if eb != nil && eb.Kind() == types.Uint8 {
				n := int(in.concretize(st, s.Len, 0, 1<<16))
				bs := make([]*Term, n)
				allc := true
				buf := make([]byte, n)
				for i := 0; i < n; i++ {
					var t *Term
					if s.Obj >= 0 {
						t = in.getPath(st, st.Heap[s.Obj], extPath(s.Path, PathEl{Field: -1, Idx: Add(s.Off, IntC(int64(i)))})).(*Term)
					}
					bs[i] = t
					if c, ok := t.ConstInt64(); ok {
						buf[i] = byte(c)
					} else {
						allc = false
					}
				}
				if allc {
					return StrV{S: string(buf)}
				}
				return StrV{Bytes: bs}
			}
		}
	}
	if types.Identical(fu, tu) {
		return v
	}
	// pointer conversions between identical underlying pointer types
	if _, ok := fu.(*types.Pointer); ok {
		if _, ok := tu.(*types.Pointer); ok {
			return v
		}
	}
	panic(unsupported(fmt.Sprintf("convert %s -> %s", from, to)))
}

func (in *Interp) typeAssert(st *State, fr *Frame, x *ssa.TypeAssert) Value {
	v := in.get(st, fr, x.X)
	iv, ok := v.(IfaceV)
	if !ok {
		if p, ok := v.(PoisonV); ok {
			panic(unsupported("type assertion on opaque value: " + p.Why))
		}
		panic(unsupported(fmt.Sprintf("typeassert on %T", v)))
	}
	okRes := false
	var res Value
	if iv.T != nil {
		if types.IsInterface(x.AssertedType) {
			if iv.T == opaqueErrType {
				// implements only `error`
				it := x.AssertedType.Underlying().(*types.Interface)
				okRes = it.NumMethods() == 0 || (it.NumMethods() == 1 && it.Method(0).Name() == "Error")
			} else {
				okRes = types.Implements(iv.T, x.AssertedType.Underlying().(*types.Interface))
			}
			if okRes {
				res = iv
			}
		} else if iv.T != opaqueErrType && types.Identical(iv.T, x.AssertedType) {
			okRes = true
			res = iv.V
		}
	}
	if x.CommaOk {
		if !okRes {
			res = zeroValue(x.AssertedType)
		}
		return TupleV{res, BoolC(okRes)}
	}
	if !okRes {
		in.require(st, False, "failed type assertion")
		panic(pathEnd{"panic"})
	}
	return res
}

// ---------------------------------------------------------------------------
// slices, strings, maps

func (in *Interp) strIndex(st *State, s StrV, idx *Term) Value {
	bs := strBytes(s)
	in.require(st, And(Le(IntC(0), idx), Lt(idx, IntC(int64(len(bs))))), "string index out of range")
	if k, ok := in.idxConst(st, idx); ok {
		return bs[k]
	}
	if len(bs) == 0 {
		panic(pathEnd{"infeasible"})
	}
	res := bs[len(bs)-1]
	for k := len(bs) - 2; k >= 0; k-- {
		res = Ite(Eq(idx, IntC(int64(k))), bs[k], res)
	}
	return res
}

func (in *Interp) indexAddr(st *State, fr *Frame, x *ssa.IndexAddr) Value {
	base := in.get(st, fr, x.X)
	idx := in.term(st, fr, x.Index)
	switch b := base.(type) {
	case SliceV:
		in.require(st, And(Le(IntC(0), idx), Lt(idx, b.Len)), "index out of range")
		if b.Obj < 0 {
			panic(pathEnd{"infeasible"})
		}
		return PtrV{Obj: b.Obj, Path: extPath(b.Path, PathEl{Field: -1, Idx: Add(b.Off, idx)})}
	case PtrV:
		if b.Obj < 0 {
			in.require(st, False, "nil dereference")
			panic(pathEnd{"panic"})
		}
		n := x.X.Type().Underlying().(*types.Pointer).Elem().Underlying().(*types.Array).Len()
		in.require(st, And(Le(IntC(0), idx), Lt(idx, IntC(n))), "index out of range")
		return PtrV{Obj: b.Obj, Path: extPath(b.Path, PathEl{Field: -1, Idx: idx})}
	case PoisonV:
		panic(unsupported("index into opaque value: " + b.Why))
	}
	panic(unsupported(fmt.Sprintf("IndexAddr on %T", base)))
}

func (in *Interp) sliceOp(st *State, fr *Frame, x *ssa.Slice) Value {
	base := in.get(st, fr, x.X)
	var lo, hi, max *Term
	if x.Low != nil {
		lo = in.term(st, fr, x.Low)
	}
	if x.High != nil {
		hi = in.term(st, fr, x.High)
	}
	if x.Max != nil {
		max = in.term(st, fr, x.Max)
	}
	switch b := base.(type) {
	case StrV:
		if b.Atom != nil || b.Fmt != nil {
			panic(unsupported("slicing opaque string"))
		}
		if b.Parts != nil {
			// only s[k:] with k inside the leading literal is supported
			if hi != nil || lo == nil {
				panic(unsupported("slicing a structured string other than s[k:]"))
			}
			k, ok := lo.ConstInt64()
			if !ok {
				panic(unsupported("slicing a structured string at a symbolic offset"))
			}
			np, ok := dropPrefixParts(b.Parts, int(k))
			if !ok {
				panic(unsupported("slicing a structured string inside a symbolic number"))
			}
			return normParts(np)
		}
		bs := strBytes(b)
		n := int64(len(bs))
		l, h := int64(0), n
		if lo != nil {
			in.require(st, And(Le(IntC(0), lo), Le(lo, IntC(n))), "slice bounds out of range")
			l = in.concretize(st, lo, 0, n)
		}
		if hi != nil {
			in.require(st, And(Le(IntC(l), hi), Le(hi, IntC(n))), "slice bounds out of range")
			h = in.concretize(st, hi, l, n)
		}
		if l > h {
			panic(pathEnd{"infeasible"})
		}
		if b.Bytes != nil {
			return StrV{Bytes: append([]*Term{}, b.Bytes[l:h]...)}
		}
		return StrV{S: b.S[l:h]}
	case SliceV:
		if lo == nil {
			lo = IntC(0)
		}
		if hi == nil {
			hi = b.Len
		}
		capT := b.Cap
		if max != nil {
			in.require(st, And(Le(hi, max), Le(max, b.Cap)), "slice bounds out of range")
			capT = max
		}
		in.require(st, And(Le(IntC(0), lo), And(Le(lo, hi), Le(hi, b.Cap))), "slice bounds out of range")
		if b.Obj < 0 {
			return b
		}
		return SliceV{Obj: b.Obj, Path: b.Path, Off: Add(b.Off, lo), Len: Sub(hi, lo), Cap: Sub(capT, lo)}
	case PtrV:
		// pointer to array
		if b.Obj < 0 {
			in.require(st, False, "nil dereference")
			panic(pathEnd{"panic"})
		}
		n := x.X.Type().Underlying().(*types.Pointer).Elem().Underlying().(*types.Array).Len()
		if lo == nil {
			lo = IntC(0)
		}
		if hi == nil {
			hi = IntC(n)
		}
		capT := IntC(n)
		if max != nil {
			in.require(st, And(Le(hi, max), Le(max, IntC(n))), "slice bounds out of range")
			capT = max
		}
		in.require(st, And(Le(IntC(0), lo), And(Le(lo, hi), Le(hi, IntC(n)))), "slice bounds out of range")
		return SliceV{Obj: b.Obj, Path: b.Path, Off: lo, Len: Sub(hi, lo), Cap: Sub(capT, lo)}
	case PoisonV:
		panic(unsupported("slice of opaque value: " + b.Why))
	}
	panic(unsupported(fmt.Sprintf("Slice on %T", base)))
}

func (in *Interp) sliceElem(st *State, s SliceV, i int64) Value {
	return in.getPath(st, st.Heap[s.Obj], extPath(s.Path, PathEl{Field: -1, Idx: Add(s.Off, IntC(i))}))
}

func (in *Interp) keyEq(a, b Value) *Term { return in.valEq(a, b) }

func (in *Interp) lookup(st *State, fr *Frame, x *ssa.Lookup) Value {
	base := in.get(st, fr, x.X)
	if s, ok := base.(StrV); ok {
		return in.strIndex(st, s, in.term(st, fr, x.Index))
	}
	m, ok := base.(MapV)
	if !ok {
		if p, ok := base.(PoisonV); ok {
			panic(unsupported("lookup in opaque value: " + p.Why))
		}
		panic(unsupported(fmt.Sprintf("Lookup on %T", base)))
	}
	key := in.get(st, fr, x.Index)
	if st.Thread != 0 {
		in.access(st, fr, x, m.Obj, nil, false)
	}
	in.noteGuardedLookup(st, x.X, m.Obj)
	elemT := x.X.Type().Underlying().(*types.Map).Elem()
	var res Value = zeroValue(elemT)
	found := False
	if m.Obj >= 0 {
		mo := st.Heap[m.Obj].(*MapObj)
		for i := 0; i < len(mo.Keys); i++ {
			eq := in.keyEq(key, mo.Keys[i])
			if b, ok := eq.ConstBool(); ok {
				if b {
					res = mo.Vals[i]
					found = True
					break
				}
				continue
			}
			mr, ok := merge(eq, mo.Vals[i], res)
			if !ok {
				if in.decide(st, eq) {
					res = mo.Vals[i]
					found = True
					break
				}
				continue
			}
			// keys are pairwise distinct, so order of the ite chain is irrelevant
			res = mr
			found = Or(found, eq)
		}
	}
	if x.CommaOk {
		return TupleV{res, found}
	}
	return res
}

func (in *Interp) mapUpdate(st *State, fr *Frame, x *ssa.MapUpdate) {
	mv := in.get(st, fr, x.Map)
	m, ok := mv.(MapV)
	if !ok {
		panic(unsupported(fmt.Sprintf("MapUpdate on %T", mv)))
	}
	if m.Obj < 0 {
		in.require(st, False, "assignment to entry in nil map")
		panic(pathEnd{"panic"})
	}
	key := in.get(st, fr, x.Key)
	val := in.get(st, fr, x.Value)
	if st.Thread != 0 {
		in.access(st, fr, x, m.Obj, nil, true)
	}
	in.atomicInsertCheck(st, fr, x, m.Obj)
	mo := st.Heap[m.Obj].(*MapObj)
	for i := range mo.Keys {
		eq := in.keyEq(key, mo.Keys[i])
		if in.decide(st, eq) {
			nv := append([]Value(nil), mo.Vals...)
			nv[i] = val
			st.Heap[m.Obj] = &MapObj{Keys: mo.Keys, Vals: nv}
			return
		}
	}
	st.Heap[m.Obj] = &MapObj{Keys: append(append([]Value(nil), mo.Keys...), key), Vals: append(append([]Value(nil), mo.Vals...), val)}
}

func (in *Interp) rangeInit(st *State, fr *Frame, x *ssa.Range) Value {
	v := in.get(st, fr, x.X)
	switch c := v.(type) {
	case MapV:
		it := &IterState{}
		if c.Obj >= 0 {
			if st.Thread != 0 {
				in.access(st, fr, x, c.Obj, nil, false)
			}
			mo := st.Heap[c.Obj].(*MapObj)
			it.Keys, it.Vals = mo.Keys, mo.Vals
		}
		return IterV{Obj: st.alloc(it)}
	case StrV:
		if c.Atom != nil || c.Fmt != nil || c.Bytes != nil || c.Parts != nil {
			panic(unsupported("range over non-concrete string"))
		}
		return IterV{Obj: st.alloc(&IterState{Str: c.S, IsStr: true})}
	}
	panic(unsupported(fmt.Sprintf("range over %T", v)))
}

func (in *Interp) next(st *State, fr *Frame, x *ssa.Next) Value {
	itv := in.get(st, fr, x.Iter).(IterV)
	it := st.Heap[itv.Obj].(*IterState)
	tt := x.Type().(*types.Tuple)
	if it.IsStr {
		if it.Pos >= len(it.Str) {
			return TupleV{False, IntC(0), IntC(0)}
		}
		var r rune
		var w int
		for i, c := range it.Str[it.Pos:] {
			if i == 0 {
				r = c
				w = len(string(c))
				if c == 0xFFFD {
					w = 1
				}
			}
			break
		}
		pos := it.Pos
		ni := *it
		ni.Pos += w
		st.Heap[itv.Obj] = &ni
		return TupleV{True, IntC(int64(pos)), IntC(int64(r))}
	}
	if it.Pos >= len(it.Keys) {
		var zk, zv Value = IntC(0), IntC(0)
		func() {
			defer func() { recover() }()
			zk = zeroValue(tt.At(1).Type())
		}()
		func() {
			defer func() { recover() }()
			zv = zeroValue(tt.At(2).Type())
		}()
		return TupleV{False, zk, zv}
	}
	k, v := it.Keys[it.Pos], it.Vals[it.Pos]
	ni := *it
	ni.Pos++
	st.Heap[itv.Obj] = &ni
	return TupleV{True, k, v}
}

// ---------------------------------------------------------------------------
// builtins

func (in *Interp) builtin(st *State, fr *Frame, b *ssa.Builtin, args []Value) Value {
	switch b.Name() {
	case "len":
		switch a := args[0].(type) {
		case SliceV:
			return a.Len
		case StrV:
			if a.Atom != nil || a.Fmt != nil || a.Parts != nil {
				panic(unsupported("len of opaque/structured string"))
			}
			if a.Bytes != nil {
				return IntC(int64(len(a.Bytes)))
			}
			return IntC(int64(len(a.S)))
		case MapV:
			if a.Obj < 0 {
				return IntC(0)
			}
			return IntC(int64(len(st.Heap[a.Obj].(*MapObj).Keys)))
		case *ArrayV:
			return IntC(int64(len(a.E)))
		case PtrV:
			return IntC(int64(len(in.load(st, a).(*ArrayV).E)))
		case PoisonV:
			panic(unsupported("len of opaque value: " + a.Why))
		case ChanV:
			if o, _ := in.chanObj(st, a, "len"); o != nil {
				return IntC(int64(len(o.Buf)))
			}
			return IntC(0)
		}
	case "cap":
		switch a := args[0].(type) {
		case SliceV:
			return a.Cap
		case *ArrayV:
			return IntC(int64(len(a.E)))
		}
	case "close":
		in.chanClose(st, args[0])
		return TupleV{}
	case "append":
		return in.appendOp(st, fr, args)
	case "copy":
		return in.copyOp(st, args)
	case "min", "max":
		r := args[0]
		for _, a := range args[1:] {
			rt, at := r.(*Term), a.(*Term)
			if b.Name() == "min" {
				r = Ite(Le(rt, at), rt, at)
			} else {
				r = Ite(Ge(rt, at), rt, at)
			}
		}
		return r
	case "delete":
		m := args[0].(MapV)
		if m.Obj < 0 {
			return TupleV{}
		}
		if st.Thread != 0 {
			in.access(st, fr, fr.Block.Instrs[fr.PC], m.Obj, nil, true)
		}
		mo := st.Heap[m.Obj].(*MapObj)
		for i := range mo.Keys {
			if in.decide(st, in.keyEq(args[1], mo.Keys[i])) {
				nk := append(append([]Value(nil), mo.Keys[:i]...), mo.Keys[i+1:]...)
				nv := append(append([]Value(nil), mo.Vals[:i]...), mo.Vals[i+1:]...)
				st.Heap[m.Obj] = &MapObj{Keys: nk, Vals: nv}
				break
			}
		}
		return TupleV{}
	case "print", "println":
		return TupleV{}
	case "clear":
		switch a := args[0].(type) {
		case MapV:
			if a.Obj >= 0 {
				st.Heap[a.Obj] = &MapObj{}
			}
			return TupleV{}
		}
	}
	panic(unsupported("builtin " + b.Name()))
}

func (in *Interp) appendOp(st *State, fr *Frame, args []Value) Value {
	s := args[0].(SliceV)
	var n2 int64
	var elems func(i int64) Value
	switch t := args[1].(type) {
	case SliceV:
		n2 = in.concretize(st, t.Len, 0, 1<<16)
		elems = func(i int64) Value { return in.sliceElem(st, t, i) }
	case StrV:
		bs := strBytes(t)
		n2 = int64(len(bs))
		elems = func(i int64) Value { return bs[i] }
	default:
		panic(unsupported(fmt.Sprintf("append of %T", args[1])))
	}
	if n2 == 0 {
		return s
	}
	n1 := in.concretize(st, s.Len, 0, 1<<16)
	c1 := in.concretize(st, s.Cap, n1, 1<<16)
	if s.Obj >= 0 && n1+n2 <= c1 {
		// in place
		vals := make([]Value, n2)
		for i := int64(0); i < n2; i++ {
			vals[i] = elems(i)
		}
		for i := int64(0); i < n2; i++ {
			p := PtrV{Obj: s.Obj, Path: extPath(s.Path, PathEl{Field: -1, Idx: Add(s.Off, IntC(n1+i))})}
			in.store(st, p, vals[i])
		}
		return SliceV{Obj: s.Obj, Path: s.Path, Off: s.Off, Len: IntC(n1 + n2), Cap: s.Cap}
	}
	nc := 2 * c1
	if nc < n1+n2 {
		nc = n1 + n2
	}
	if nc < 4 {
		nc = 4
	}
	if nc > 8192 {
		panic(unsupported("append exceeds materialisation limit"))
	}
	e := make([]Value, nc)
	for i := int64(0); i < n1; i++ {
		e[i] = in.sliceElem(st, s, i)
	}
	for i := int64(0); i < n2; i++ {
		e[n1+i] = elems(i)
	}
	if nc > n1+n2 {
		// zero of element type: derive from an existing element
		var z Value
		if tt, ok := fr.Block.Instrs[fr.PC].(ssa.Value); ok {
			if sl, ok := tt.Type().Underlying().(*types.Slice); ok {
				z = zeroValue(sl.Elem())
			}
		}
		if z == nil {
			z = zeroLike(e[0])
		}
		for i := n1 + n2; i < nc; i++ {
			e[i] = z
		}
	}
	id := st.alloc(&ArrayV{E: e})
	return SliceV{Obj: id, Off: IntC(0), Len: IntC(n1 + n2), Cap: IntC(nc)}
}

func zeroLike(v Value) Value {
	switch x := v.(type) {
	case *Term:
		switch x.Sort {
		case SInt:
			return IntC(0)
		case SBool:
			return False
		default:
			return RealC(new(big.Rat))
		}
	case *StructV:
		f := make([]Value, len(x.F))
		for i := range f {
			f[i] = zeroLike(x.F[i])
		}
		return &StructV{F: f}
	case *ArrayV:
		e := make([]Value, len(x.E))
		for i := range e {
			e[i] = zeroLike(x.E[i])
		}
		return &ArrayV{E: e}
	case PtrV:
		return nilPtr
	case StrV:
		return StrV{}
	case SliceV:
		return SliceV{Obj: -1, Off: IntC(0), Len: IntC(0), Cap: IntC(0)}
	case IfaceV:
		return IfaceV{}
	case MapV:
		return MapV{Obj: -1}
	case FuncV:
		return FuncV{Nil: true}
	}
	panic(unsupported(fmt.Sprintf("zeroLike %T", v)))
}

func (in *Interp) copyOp(st *State, args []Value) Value {
	d := args[0].(SliceV)
	var n2t *Term
	var elemAt func(i int64) (Value, bool)
	switch t := args[1].(type) {
	case SliceV:
		n2t = t.Len
		elemAt = func(i int64) (Value, bool) {
			if t.Obj < 0 {
				return nil, false
			}
			arr, ok := in.getPath(st, st.Heap[t.Obj], t.Path).(*ArrayV)
			if !ok {
				return nil, false
			}
			idx := Add(t.Off, IntC(i))
			if c, ok := idx.ConstInt64(); ok && (c < 0 || c >= int64(len(arr.E))) {
				return nil, false
			}
			if idx.Lo != nil && idx.Lo.Cmp(new(big.Rat).SetInt64(int64(len(arr.E)))) >= 0 {
				return nil, false
			}
			return in.getPath(st, arr, []PathEl{{Field: -1, Idx: idx}}), true
		}
	case StrV:
		bs := strBytes(t)
		n2t = IntC(int64(len(bs)))
		elemAt = func(i int64) (Value, bool) {
			if i >= int64(len(bs)) {
				return nil, false
			}
			return bs[i], true
		}
	default:
		panic(unsupported(fmt.Sprintf("copy from %T", args[1])))
	}
	n1c, ok1 := in.idxConst64(st, d.Len)
	n2c, ok2 := in.idxConst64(st, n2t)
	if ok1 && ok2 {
		n := n1c
		if n2c < n {
			n = n2c
		}
		vals := make([]Value, n)
		for i := int64(0); i < n; i++ {
			v, ok := elemAt(i)
			if !ok {
				panic(pathEnd{"infeasible"})
			}
			vals[i] = v
		}
		for i := int64(0); i < n; i++ {
			p := PtrV{Obj: d.Obj, Path: extPath(d.Path, PathEl{Field: -1, Idx: Add(d.Off, IntC(i))})}
			in.store(st, p, vals[i])
		}
		return IntC(n)
	}
	// symbolic length: element-wise guarded copy (no forking)
	n := Ite(Le(d.Len, n2t), d.Len, n2t)
	maxN := int64(-1)
	for _, t := range []*Term{d.Len, n2t} {
		if t.Hi != nil && t.Hi.IsInt() && t.Hi.Num().IsInt64() {
			if h := t.Hi.Num().Int64(); maxN < 0 || h < maxN {
				maxN = h
			}
		}
	}
	if d.Obj >= 0 {
		if arr, ok := in.getPath(st, st.Heap[d.Obj], d.Path).(*ArrayV); ok && (maxN < 0 || int64(len(arr.E)) < maxN) {
			maxN = int64(len(arr.E))
		}
	}
	if maxN < 0 || maxN > 512 {
		panic(unsupported("copy with unbounded symbolic length"))
	}
	if d.Obj < 0 {
		return IntC(0)
	}
	type pending struct {
		i int64
		v Value
	}
	var ps []pending
	for i := int64(0); i < maxN; i++ {
		g := Lt(IntC(i), n)
		if b, ok := g.ConstBool(); ok && !b {
			break
		}
		sv, ok := elemAt(i)
		if !ok {
			break
		}
		ps = append(ps, pending{i, sv})
	}
	darr := in.getPath(st, st.Heap[d.Obj], d.Path).(*ArrayV)
	for _, pe := range ps {
		g := Lt(IntC(pe.i), n)
		idx := Add(d.Off, IntC(pe.i))
		if c, ok := idx.ConstInt64(); ok && (c < 0 || c >= int64(len(darr.E))) {
			break
		}
		if idx.Lo != nil && idx.Lo.Cmp(new(big.Rat).SetInt64(int64(len(darr.E)))) >= 0 {
			break
		}
		cur := in.getPath(st, st.Heap[d.Obj], extPath(d.Path, PathEl{Field: -1, Idx: idx}))
		nv, ok := merge(g, pe.v, cur)
		if !ok {
			// elements that cannot be merged with ite (e.g. different concrete strings): fork on the lengths instead
			if _, c := in.idxConst64(st, d.Len); !c {
				in.concretize(st, d.Len, 0, 1<<16)
			}
			if _, c := in.idxConst64(st, n2t); !c {
				in.concretize(st, n2t, 0, 1<<16)
			}
			panic(unsupported("copy with symbolic length of non-scalar elements"))
		}
		in.store(st, PtrV{Obj: d.Obj, Path: extPath(d.Path, PathEl{Field: -1, Idx: idx})}, nv)
	}
	return n
}

func (in *Interp) idxConst64(st *State, t *Term) (int64, bool) {
	if v, ok := t.ConstInt64(); ok {
		return v, true
	}
	if v, ok := st.Concr[t.ID]; ok {
		return v, true
	}
	return 0, false
}

// wrap reduces an exact Int term into the range of basic type b. When the syntactic interval cannot show
// that the reduction is the identity, the solver is asked under the current path condition (unsat = no
// overflow possible on this path, so the exact term is kept; anything else keeps the guarded `mod`).
func (in *Interp) wrap(st *State, t *Term, b *types.Basic) *Term {
	w := wrapInt(t, b)
	if w == t || st.Spec || in.Cfg.Fixed != nil || in.Cfg.NoWrapQuery {
		return w
	}
	if _, ok := in.wrapKnown[wrapKey{t.ID, len(st.PC)}]; ok {
		return t
	}
	lo, hi := typeRange(b)
	if lo == nil {
		return w
	}
	out := Or(Lt(t, BigC(lo)), Gt(t, BigC(hi)))
	if c, ok := out.ConstBool(); ok {
		if !c {
			return t
		}
		return w
	}
	in.Res.BranchQ++
	in.Res.WrapQueries++
	if in.Sol.CheckWith(out) == Unsat {
		in.Res.WrapElided++
		return t
	}
	return w
}

func guardedField(guards []Guard, t types.Type, field int) (*Guard, string, int) {
	pt, ok := t.Underlying().(*types.Pointer)
	if !ok {
		return nil, "", -1
	}
	nt, ok := pt.Elem().(*types.Named)
	if !ok {
		return nil, "", -1
	}
	stt, ok := nt.Underlying().(*types.Struct)
	if !ok {
		return nil, "", -1
	}
	for gi := range guards {
		g := &guards[gi]
		if nt.Obj().Name() != g.Type {
			continue
		}
		fname := stt.Field(field).Name()
		for _, f := range g.Fields {
			if f == fname {
				for i := 0; i < stt.NumFields(); i++ {
					if stt.Field(i).Name() == g.Mutex {
						return g, fname, i
					}
				}
			}
		}
	}
	return nil, "", -1
}

// guardCheck: an access to a guarded field must happen with the object's mutex held (ghost bit).
func (in *Interp) guardCheck(st *State, fr *Frame, x *ssa.FieldAddr, p PtrV) {
	g, fname, mi := guardedField(in.Cfg.Guards, x.X.Type(), x.Field)
	if g == nil {
		return
	}
	// exempt: constructors and harness code
	for i := len(st.Frames) - 1; i >= 0; i-- {
		f := st.Frames[i].Fn
		if i == len(st.Frames)-1 {
			if isVerifFile(in, f) {
				return
			}
			for _, e := range g.Exempt {
				if f.Name() == e {
					return
				}
			}
		}
	}
	in.Res.GuardChecks++
	mp := PtrV{Obj: p.Obj, Path: extPath(p.Path, PathEl{Field: mi})}
	if st.Mutex[lockKey(mp)] {
		return
	}
	if st.Spec {
		panic(specAbort{"guard"})
	}
	site := in.posOf(x, fr)
	in.obligation(st, "lock:unguarded-access:"+g.Type+"."+fname+"@"+fr.Fn.Name(), "discipline", site, False,
		"access to "+g.Type+"."+fname+" in "+fr.Fn.String()+" without holding "+g.Mutex)
}

// GuardAccessors lists every function of pkg that touches a guarded field (SSA referrer scan).
func GuardAccessors(pkg *ssa.Package, guards []Guard) []string {
	seen := map[string]bool{}
	var visit func(fn *ssa.Function)
	visit = func(fn *ssa.Function) {
		for _, b := range fn.Blocks {
			for _, ins := range b.Instrs {
				switch x := ins.(type) {
				case *ssa.FieldAddr:
					if g, f, _ := guardedField(guards, x.X.Type(), x.Field); g != nil {
						seen[fn.String()+" -> "+g.Type+"."+f] = true
					}
				}
			}
		}
		for _, an := range fn.AnonFuncs {
			visit(an)
		}
	}
	for _, m := range pkg.Members {
		switch x := m.(type) {
		case *ssa.Function:
			visit(x)
		case *ssa.Type:
			for _, t := range []types.Type{x.Type(), types.NewPointer(x.Type())} {
				ms := pkg.Prog.MethodSets.MethodSet(t)
				for i := 0; i < ms.Len(); i++ {
					if fn := pkg.Prog.MethodValue(ms.At(i)); fn != nil && fn.Pkg == pkg {
						visit(fn)
					}
				}
			}
		}
	}
	var out []string
	for k := range seen {
		out = append(out, k)
	}
	sort.Strings(out)
	return out
}

func (in *Interp) provablyNonNeg(st *State, t *Term) bool {
	if t.Lo != nil && t.Lo.Sign() >= 0 {
		return true
	}
	in.Res.BranchQ++
	return in.Sol.CheckWith(Lt(t, IntC(0))) == Unsat
}

// ---- check-then-insert atomicity for maps held in guarded fields ----
// A map kept in a guarded field (find-or-create tables) may only be inserted into in the critical section in which the
// same code looked the map up: "look up under the lock, release it, build, lock again and insert" lets two concurrent
// callers both miss and both insert (the later insert overwrites the earlier object). Every Lock starts a new hold
// episode of its mutex; a lookup of the guarded map records (mutex, episode) for each mutex held; an insert needs one
// of the currently held (mutex, episode) pairs among those recorded for this map, and that mutex must be held in write
// mode (an insert under RLock is not exclusive). Constructors (exempt functions of the
// guard) and harness code are not checked.

func (in *Interp) guardedMapField(v ssa.Value) (*Guard, string) {
	if len(in.Cfg.Guards) == 0 {
		return nil, ""
	}
	u, ok := v.(*ssa.UnOp)
	if !ok || u.Op != token.MUL {
		return nil, ""
	}
	fa, ok := u.X.(*ssa.FieldAddr)
	if !ok {
		return nil, ""
	}
	g, fname, _ := guardedField(in.Cfg.Guards, fa.X.Type(), fa.Field)
	return g, fname
}

func (in *Interp) noteGuardedLookup(st *State, mapVal ssa.Value, obj int) {
	if obj < 0 {
		return
	}
	if g, _ := in.guardedMapField(mapVal); g == nil {
		return
	}
	if st.MapLook == nil {
		st.MapLook = map[int]map[[2]int]bool{}
	}
	set := st.MapLook[obj]
	if set == nil {
		set = map[[2]int]bool{}
		st.MapLook[obj] = set
	}
	for k, held := range st.Mutex {
		if held {
			set[[2]int{k, st.LockEp[k]}] = true
		}
	}
}

func (in *Interp) atomicInsertCheck(st *State, fr *Frame, x *ssa.MapUpdate, obj int) {
	g, fname := in.guardedMapField(x.Map)
	if g == nil {
		return
	}
	if isVerifFile(in, fr.Fn) {
		return
	}
	for _, e := range g.Exempt {
		if fr.Fn.Name() == e {
			return
		}
	}
	in.Res.GuardChecks++
	for k, held := range st.Mutex {
		if held && !st.RLocked[k] && st.MapLook[obj][[2]int{k, st.LockEp[k]}] {
			return
		}
	}
	if st.Spec {
		panic(specAbort{"guard"})
	}
	site := in.posOf(x, fr)
	in.obligation(st, "lock:insert-not-atomic-with-lookup:"+g.Type+"."+fname+"@"+fr.Fn.Name(), "discipline", site, False,
		"insert into "+g.Type+"."+fname+" in "+fr.Fn.String()+" outside the critical section in which the map was looked up (check-then-insert is not atomic)")
}
