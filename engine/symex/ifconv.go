package symex

import (
	"go/token"

	"golang.org/x/tools/go/ssa"
)

// If-conversion (limited state merging): when both arms of a branch consist of
// side-effect-free straight-line/nested-branch code that reconverges at the
// immediate post-dominator of the branch, both arms are executed speculatively
// (no solver calls) and the results are merged with ite terms. Anything that
// would need an obligation, a call into non-intrinsic code, a loop or a fork
// aborts the speculation and the executor falls back to ordinary path forking.

type specAbort struct{ why string }

const maxSpecLeaves = 24

type pdomInfo struct {
	ipdom map[*ssa.BasicBlock]*ssa.BasicBlock // nil => exit
}

func (in *Interp) postDom(fn *ssa.Function) *pdomInfo {
	if p, ok := in.pdoms[fn]; ok {
		return p
	}
	n := len(fn.Blocks)
	// sets as bitsets over block indices plus virtual exit (index n)
	full := make([]bool, n+1)
	for i := range full {
		full[i] = true
	}
	pd := make([][]bool, n+1)
	for i := 0; i <= n; i++ {
		pd[i] = append([]bool(nil), full...)
	}
	pd[n] = make([]bool, n+1)
	pd[n][n] = true
	succs := func(b *ssa.BasicBlock) []int {
		if len(b.Succs) == 0 {
			return []int{n}
		}
		r := make([]int, len(b.Succs))
		for i, s := range b.Succs {
			r[i] = s.Index
		}
		return r
	}
	changed := true
	for changed {
		changed = false
		for i := n - 1; i >= 0; i-- {
			b := fn.Blocks[i]
			nw := append([]bool(nil), full...)
			for _, s := range succs(b) {
				for k := range nw {
					nw[k] = nw[k] && pd[s][k]
				}
			}
			nw[i] = true
			for k := range nw {
				if nw[k] != pd[i][k] {
					changed = true
				}
			}
			pd[i] = nw
		}
	}
	info := &pdomInfo{ipdom: map[*ssa.BasicBlock]*ssa.BasicBlock{}}
	for i := 0; i < n; i++ {
		// strict post-dominators of i; the immediate one is the one post-dominated by all others... i.e. the
		// strict pdom d such that every other strict pdom of i also post-dominates d.
		var best = -1
		for d := 0; d <= n; d++ {
			if d == i || !pd[i][d] {
				continue
			}
			ok := true
			for e := 0; e <= n; e++ {
				if e == i || e == d || !pd[i][e] {
					continue
				}
				if !pd[d][e] {
					ok = false
					break
				}
			}
			if ok {
				best = d
				break
			}
		}
		if best >= 0 && best < n {
			info.ipdom[fn.Blocks[i]] = fn.Blocks[best]
		}
	}
	in.pdoms[fn] = info
	return info
}

// specPure reports whether ins may be executed speculatively.
func specPure(ins ssa.Instruction) bool {
	switch x := ins.(type) {
	case *ssa.DebugRef, *ssa.Phi, *ssa.ChangeType, *ssa.Convert, *ssa.Field, *ssa.FieldAddr, *ssa.Extract,
		*ssa.MakeInterface, *ssa.Store, *ssa.Jump, *ssa.If, *ssa.ChangeInterface, *ssa.Alloc, *ssa.Call:
		return true
	case *ssa.BinOp:
		switch x.Op {
		case token.SHL, token.SHR:
			_, ok := x.Y.(*ssa.Const)
			return ok
		}
		return true
	case *ssa.UnOp:
		return x.Op != token.ARROW
	}
	return false
}

type specLeaf struct {
	cond *Term
	st   *State
}

// tryIfConvert attempts to execute the region from the If at the top frame to its
// immediate post-dominator speculatively. On success st is replaced by the merged
// state positioned at the join block and true is returned.
func (in *Interp) tryIfConvert(st *State, fr *Frame, x *ssa.If, c *Term) bool {
	if in.Cfg.NoIfConv || st.Spec {
		return false
	}
	join := in.postDom(fr.Fn).ipdom[fr.Block]
	if join == nil {
		return false
	}
	key := x
	if in.noConv[key] >= 3 {
		return false
	}
	depth := len(st.Frames)
	var leaves []specLeaf
	ok := func() (ok bool) {
		defer func() {
			if r := recover(); r != nil {
				switch r.(type) {
				case specAbort, unsupportedErr, pathEnd, forkReq, []alternative:
					ok = false
				default:
					panic(r)
				}
			}
		}()
		in.specRegion(st, depth, join, c, True, fr.Block, &leaves, 0)
		return true
	}()
	if !ok || len(leaves) == 0 {
		in.noConv[key]++
		return false
	}
	// merge leaves: ite(c1, v1, ite(c2, v2, ... vk))
	merged := leaves[len(leaves)-1].st
	for i := len(leaves) - 2; i >= 0; i-- {
		m, ok := in.mergeStates(leaves[i].cond, leaves[i].st, merged, depth)
		if !ok {
			in.noConv[key]++
			return false
		}
		merged = m
	}
	merged.Spec = false
	*st = *merged
	in.Res.IfConverted++
	return true
}

// specRegion explores from the current position (an If at the top frame of s, cond c) until `join`.
func (in *Interp) specRegion(s *State, depth int, join *ssa.BasicBlock, c *Term, pathCond *Term, ifBlock *ssa.BasicBlock, leaves *[]specLeaf, nest int) {
	if nest > 6 {
		panic(specAbort{"nesting"})
	}
	for side := 0; side < 2; side++ {
		cond := c
		if side == 1 {
			cond = Not(c)
		}
		if b, ok := cond.ConstBool(); ok && !b {
			continue
		}
		if s.top().Info.loopHeads[ifBlock.Succs[side]] && ifBlock.Succs[side] != join {
			panic(specAbort{"loop"})
		}
		s2 := s.clone()
		s2.Spec = true
		fr := s2.top()
		in.jump(s2, fr, ifBlock.Succs[side])
		in.specRun(s2, depth, join, And(pathCond, cond), leaves, nest)
	}
}

// specRun executes s2 (positioned at the start of a region block) until it reaches join.
func (in *Interp) specRun(s2 *State, depth int, join *ssa.BasicBlock, pathCond *Term, leaves *[]specLeaf, nest int) {
	steps := 0
	for {
		if len(s2.Frames) != depth {
			panic(specAbort{"frame depth changed"})
		}
		fr := s2.top()
		if fr.Block == join && fr.PC <= countPhis(join) {
			if len(*leaves) >= maxSpecLeaves {
				panic(specAbort{"too many leaves"})
			}
			*leaves = append(*leaves, specLeaf{cond: pathCond, st: s2})
			return
		}
		steps++
		if steps > 400 {
			panic(specAbort{"region too long"})
		}
		ins := fr.Block.Instrs[fr.PC]
		if !specPure(ins) {
			panic(specAbort{"impure instruction"})
		}
		switch x := ins.(type) {
		case *ssa.If:
			c := in.term(s2, fr, x.Cond)
			if b, ok := c.ConstBool(); ok {
				if b {
					in.jump(s2, fr, fr.Block.Succs[0])
				} else {
					in.jump(s2, fr, fr.Block.Succs[1])
				}
				continue
			}
			// the nested region must close before (or at) our join: keep exploring both sides up to join
			in.specRegion(s2, depth, join, c, pathCond, fr.Block, leaves, nest+1)
			return
		case *ssa.Jump:
			if fr.Info.loopHeads[fr.Block.Succs[0]] && fr.Block.Succs[0] != join {
				panic(specAbort{"loop"})
			}
			in.jump(s2, fr, fr.Block.Succs[0])
			continue
		case *ssa.Call:
			// only intrinsics / builtins (no frame push)
			fv, args := in.resolveCall(s2, fr, x.Common())
			if fv.Builtin == nil && (fv.Fn == nil || in.intrinsic(fv.Fn) == nil || !specSafeIntrinsic(fv.Fn)) {
				panic(specAbort{"call"})
			}
			if fv.Builtin != nil {
				switch fv.Builtin.Name() {
				case "len", "cap", "min", "max":
				default:
					panic(specAbort{"builtin"})
				}
			}
			in.invoke(s2, fr, fv, args, fr.Info.index[x], false)
			continue
		}
		in.step(s2, fr, ins)
	}
}

func specSafeIntrinsic(fn *ssa.Function) bool {
	switch fn.String() {
	case "math.Round", "math.Floor", "math.Ceil", "math.Trunc", "math.Abs", "math.Inf", "math.IsInf", "math.IsNaN":
		return true
	}
	if fn.Pkg != nil {
		switch fn.Pkg.Pkg.Path() {
		case "log/slog", "log":
			return true
		}
	}
	return false
}

func countPhis(b *ssa.BasicBlock) int {
	n := 0
	for _, ins := range b.Instrs {
		if _, ok := ins.(*ssa.Phi); !ok {
			break
		}
		n++
	}
	return n
}

// mergeStates returns ite(c, a, b) over registers of the top frame and heap objects.
func (in *Interp) mergeStates(c *Term, a, b *State, depth int) (*State, bool) {
	if len(a.Frames) != depth || len(b.Frames) != depth {
		return nil, false
	}
	fa, fb := a.top(), b.top()
	if fa.Block != fb.Block || fa.PC != fb.PC {
		return nil, false
	}
	out := b // reuse b
	fo := out.top()
	for i := range fa.Regs {
		va, vb := fa.Regs[i], fb.Regs[i]
		if va == nil && vb == nil {
			continue
		}
		if va == nil || vb == nil {
			// defined on one side only: a value that the join cannot use (SSA dominance); keep whichever exists
			if va != nil {
				fo.Regs[i] = va
			}
			continue
		}
		if sameValue(va, vb) {
			continue
		}
		m, ok := merge(c, va, vb)
		if !ok {
			return nil, false
		}
		fo.Regs[i] = m
	}
	// Prev block: phis were already evaluated in jump(); Prev only matters for them.
	// heaps
	na, nb := len(a.Heap), len(b.Heap)
	n := na
	if nb < n {
		n = nb
	}
	for i := 0; i < n; i++ {
		va, vb := a.Heap[i], b.Heap[i]
		if sameValue(va, vb) {
			continue
		}
		m, ok := merge(c, va, vb)
		if !ok {
			return nil, false
		}
		out.Heap[i] = m
	}
	if na != nb {
		// objects allocated on one side only could be referenced through merged pointers: refuse
		return nil, false
	}
	// misc state must agree
	if len(a.Inputs) != len(b.Inputs) || len(a.PC) != len(b.PC) || a.Clock != b.Clock {
		return nil, false
	}
	for k, v := range a.Mutex {
		if b.Mutex[k] != v {
			return nil, false
		}
	}
	for k, v := range b.Mutex {
		if a.Mutex[k] != v {
			return nil, false
		}
	}
	out.Steps += a.Steps - out.Steps
	return out, true
}

func sameValue(a, b Value) bool {
	switch x := a.(type) {
	case *Term:
		y, ok := b.(*Term)
		return ok && x == y
	case *StructV:
		y, ok := b.(*StructV)
		return ok && x == y
	case *ArrayV:
		y, ok := b.(*ArrayV)
		return ok && x == y
	case *MapObj:
		y, ok := b.(*MapObj)
		return ok && x == y
	case *IterState:
		y, ok := b.(*IterState)
		return ok && x == y
	case PtrV:
		y, ok := b.(PtrV)
		return ok && x.Obj == y.Obj && pathEq(x.Path, y.Path)
	case StrV:
		y, ok := b.(StrV)
		return ok && x.S == y.S && x.Atom == y.Atom && x.Fmt == y.Fmt && len(x.Bytes) == 0 && len(y.Bytes) == 0
	case SliceV:
		y, ok := b.(SliceV)
		return ok && x.Obj == y.Obj && pathEq(x.Path, y.Path) && x.Off == y.Off && x.Len == y.Len && x.Cap == y.Cap
	case MapV:
		y, ok := b.(MapV)
		return ok && x == y
	case IfaceV:
		y, ok := b.(IfaceV)
		if !ok {
			return false
		}
		if x.T == nil || y.T == nil {
			return x.T == nil && y.T == nil
		}
		return x.T == y.T && sameValue(x.V, y.V)
	case FuncV:
		y, ok := b.(FuncV)
		return ok && x.Fn == y.Fn && x.Nil == y.Nil && len(x.Env) == 0 && len(y.Env) == 0 && !x.HasRecv && !y.HasRecv && x.Builtin == y.Builtin
	case TupleV:
		y, ok := b.(TupleV)
		if !ok || len(x) != len(y) {
			return false
		}
		for i := range x {
			if !sameValue(x[i], y[i]) {
				return false
			}
		}
		return true
	case InfV:
		y, ok := b.(InfV)
		return ok && x == y
	case IterV:
		y, ok := b.(IterV)
		return ok && x == y
	case OpaqueErr:
		y, ok := b.(OpaqueErr)
		return ok && x.Site == y.Site && x.Msg == y.Msg
	case PoisonV:
		_, ok := b.(PoisonV)
		return ok
	case nil:
		return b == nil
	}
	return false
}
