package symex

import (
	"bufio"
	"fmt"
	"io"
	"math/big"
	"os"
	"os/exec"
	"regexp"
	"strings"
	"time"
)

// Solver drives one long-lived `z3 -in` process with push/pop aligned to the DFS.
type Solver struct {
	cmd     *exec.Cmd
	in      io.WriteCloser
	out     *bufio.Reader
	level   int
	emitted map[int]int // term id -> level at which its define/declare was emitted
	stack   [][]int     // per level: ids emitted at that level
	Queries int
	Time    time.Duration
	Errors  int
	log     io.Writer
	bin     string
	args    []string
	TimeoutMS int
	rnApps  [][]*Term // per level RN applications (for monotonicity axioms)
	lines   [][]string // per level: every definition/assertion sent (for standalone re-solving)
	Fallbacks []string // extra solver command lines tried (one-shot) when the primary answers unknown
	FallbackUsed map[string]int
	FallbackTimeoutS int
	NoFallback bool // set while asking branch-feasibility questions (unknown = keep the branch)
	fbModel  map[string]string
	wantVars []string
}

func NewSolver(bin string, timeoutMS int, logPath string) (*Solver, error) {
	args := []string{"-in"}
	if strings.Contains(bin, "cvc5") {
		args = []string{"--incremental", "--produce-models", "--lang=smt2", fmt.Sprintf("--tlimit-per=%d", timeoutMS)}
	}
	s := &Solver{bin: bin, args: args, TimeoutMS: timeoutMS}
	if logPath != "" {
		f, err := os.Create(logPath)
		if err != nil {
			return nil, err
		}
		s.log = f
	}
	if err := s.start(); err != nil {
		return nil, err
	}
	return s, nil
}

func (s *Solver) start() error {
	s.cmd = exec.Command(s.bin, s.args...)
	in, err := s.cmd.StdinPipe()
	if err != nil {
		return err
	}
	out, err := s.cmd.StdoutPipe()
	if err != nil {
		return err
	}
	s.cmd.Stderr = os.Stderr
	if err := s.cmd.Start(); err != nil {
		return err
	}
	s.in = in
	s.out = bufio.NewReaderSize(out, 1<<16)
	s.level = 0
	s.emitted = map[int]int{}
	s.stack = [][]int{nil}
	s.rnApps = [][]*Term{nil}
	s.lines = [][]string{nil}
	s.send("(set-option :produce-models true)")
	if !strings.Contains(s.bin, "cvc5") {
		s.send(fmt.Sprintf("(set-option :timeout %d)", s.TimeoutMS))
	} else {
		s.send("(set-logic ALL)")
	}
	s.send("(declare-fun RN (Real) Real)")
	return nil
}

func (s *Solver) Close() {
	if s.in != nil {
		s.send("(exit)")
		s.in.Close()
		s.cmd.Wait()
	}
}

func (s *Solver) send(line string) {
	if strings.HasPrefix(line, "(declare-") || strings.HasPrefix(line, "(define-") || strings.HasPrefix(line, "(assert") {
		s.lines[s.level] = append(s.lines[s.level], line)
	}
	if s.log != nil {
		fmt.Fprintln(s.log, line)
	}
	io.WriteString(s.in, line)
	io.WriteString(s.in, "\n")
}

// Quick runs f with a short per-query timeout and without portfolio fallbacks (used for optional queries whose
// only purpose is to find additional counterexample candidates).
func (s *Solver) Quick(ms int, f func()) {
	oldNF := s.NoFallback
	s.NoFallback = true
	isZ3 := !strings.Contains(s.bin, "cvc5")
	if isZ3 {
		s.send(fmt.Sprintf("(set-option :timeout %d)", ms))
	}
	defer func() {
		s.NoFallback = oldNF
		if isZ3 {
			s.send(fmt.Sprintf("(set-option :timeout %d)", s.TimeoutMS))
		}
	}()
	f()
}

func (s *Solver) Push() {
	s.send("(push 1)")
	s.level++
	s.stack = append(s.stack, nil)
	s.rnApps = append(s.rnApps, nil)
	s.lines = append(s.lines, nil)
}

func (s *Solver) Pop() {
	s.send("(pop 1)")
	for _, id := range s.stack[s.level] {
		delete(s.emitted, id)
	}
	s.stack = s.stack[:s.level]
	s.rnApps = s.rnApps[:s.level]
	s.lines = s.lines[:s.level]
	s.level--
}

func (s *Solver) Level() int { return s.level }

// ref returns the SMT text to reference t, emitting definitions as needed.
func (s *Solver) ref(t *Term) string {
	switch t.Op {
	case "c":
		return t.String()
	case "v":
		if _, ok := s.emitted[t.ID]; !ok {
			s.send(fmt.Sprintf("(declare-const %s %s)", t.Name, t.Sort))
			s.mark(t.ID)
		}
		return t.Name
	}
	if t.Op == "raw" {
		for _, name := range rawVarRe.FindAllString(t.Name, -1) {
			if v := LookupVar(name); v != nil {
				s.ref(v)
			} else {
				// unknown variable on this path: make the predicate unsatisfiable-neutral by declaring it fresh
				fv := Var(SInt, name, nil, nil)
				s.ref(fv)
			}
		}
		return t.Name
	}
	if _, ok := s.emitted[t.ID]; ok {
		return fmt.Sprintf("t%d", t.ID)
	}
	parts := make([]string, len(t.Args))
	for i, a := range t.Args {
		parts[i] = s.ref(a)
	}
	body := "(" + t.smtOp() + " " + strings.Join(parts, " ") + ")"
	s.send(fmt.Sprintf("(define-fun t%d () %s %s)", t.ID, t.Sort, body))
	s.mark(t.ID)
	if t.Op == "@RN" {
		s.rnAxioms(t)
	}
	return fmt.Sprintf("t%d", t.ID)
}

func (s *Solver) mark(id int) {
	s.emitted[id] = s.level
	s.stack[s.level] = append(s.stack[s.level], id)
}

var rawVarRe = regexp.MustCompile(`in_[A-Za-z0-9_]+`)

var (
	ulp53    = new(big.Rat).SetFrac(big.NewInt(1), new(big.Int).Lsh(big.NewInt(1), 53))
	two53    = new(big.Rat).SetInt(new(big.Int).Lsh(big.NewInt(1), 53))
	tinyAbs  = new(big.Rat).SetFrac(big.NewInt(1), new(big.Int).Lsh(big.NewInt(1), 200)) // >= 2^-1075 (subnormal spacing): sound, smaller literal
)

// rnAxioms asserts the IEEE-754 round-to-nearest facts for one application RN(e):
// relative error <= 2^-53 (+ subnormal absolute term), exactness on integers |e|<=2^53,
// sign preservation and monotonicity against every RN application alive on the path.
func (s *Solver) rnAxioms(t *Term) {
	e := s.ref(t.Args[0])
	r := fmt.Sprintf("t%d", t.ID)
	u := ratSMT(ulp53, SReal)
	tiny := ratSMT(tinyAbs, SReal)
	arg := t.Args[0]
	if arg.Lo != nil && arg.Hi != nil {
		// bounded argument: |r - e| <= 2^-53 * max|e| + tiny  (a constant; keeps the query in difference logic)
		mx := new(big.Rat).Abs(arg.Lo)
		if h := new(big.Rat).Abs(arg.Hi); h.Cmp(mx) > 0 {
			mx = h
		}
		d := new(big.Rat).Mul(ulp53, mx)
		d.Add(d, tinyAbs)
		ds := ratSMT(d, SReal)
		s.send(fmt.Sprintf("(assert (and (<= (- %s %s) %s) (<= (- %s %s) %s)))", r, e, ds, e, r, ds))
	} else {
		// |r - e| <= u*|e| + tiny
		s.send(fmt.Sprintf("(assert (let ((ae (ite (>= %s 0.0) %s (- %s)))) (and (<= (- %s %s) (+ (* %s ae) %s)) (<= (- %s %s) (+ (* %s ae) %s)))))",
			e, e, e, r, e, u, tiny, e, r, u, tiny))
	}
	s.send(fmt.Sprintf("(assert (=> (>= %s 0.0) (>= %s 0.0)))", e, r))
	s.send(fmt.Sprintf("(assert (=> (<= %s 0.0) (<= %s 0.0)))", e, r))
	if t.Args[0].IsIntReal {
		s.send(fmt.Sprintf("(assert (=> (and (<= %s %s) (>= %s (- %s))) (= %s %s)))", e, ratSMT(two53, SReal), e, ratSMT(two53, SReal), r, e))
	}
	for _, lvl := range s.rnApps {
		for _, o := range lvl {
			oe := s.ref(o.Args[0])
			or := fmt.Sprintf("t%d", o.ID)
			s.send(fmt.Sprintf("(assert (and (=> (<= %s %s) (<= %s %s)) (=> (<= %s %s) (<= %s %s))))", e, oe, r, or, oe, e, or, r))
		}
	}
	s.rnApps[s.level] = append(s.rnApps[s.level], t)
}

func (s *Solver) Assert(t *Term) {
	if b, ok := t.ConstBool(); ok && b {
		return
	}
	r := s.ref(t)
	s.send("(assert " + r + ")")
}

type SatRes int

const (
	Unsat SatRes = iota
	Sat
	Unknown
)

func (r SatRes) String() string { return [...]string{"unsat", "sat", "unknown"}[r] }

func (s *Solver) readLine() (string, error) {
	for {
		line, err := s.out.ReadString('\n')
		if err != nil {
			return "", err
		}
		line = strings.TrimSpace(line)
		if line == "" {
			continue
		}
		return line, nil
	}
}

// Check runs check-sat under the current assertion stack.
func (s *Solver) Check() SatRes {
	t0 := time.Now()
	s.Queries++
	s.send("(check-sat)")
	s.send("(echo \"<<done>>\")")
	res := Unknown
	sawErr := false
	for {
		line, err := s.readLine()
		if err != nil {
			s.Errors++
			fmt.Fprintln(os.Stderr, "solver died:", err)
			res = Unknown
			break
		}
		if strings.Contains(line, "<<done>>") {
			break
		}
		if strings.HasPrefix(line, "(error") {
			sawErr = true
			s.Errors++
			fmt.Fprintln(os.Stderr, "SOLVER ERROR:", line)
			continue
		}
		switch line {
		case "sat":
			res = Sat
		case "unsat":
			res = Unsat
		case "unknown", "timeout":
			res = Unknown
		}
	}
	if sawErr {
		res = Unknown
	}
	s.fbModel = nil
	if res == Unknown && len(s.Fallbacks) > 0 && !s.NoFallback {
		res, s.fbModel = s.fallback(s.wantVars)
	}
	d := time.Since(t0)
	s.Time += d
	if s.log != nil {
		fmt.Fprintf(s.log, "; -> %s in %.3fs\n", res, d.Seconds())
	}
	return res
}

// fallback re-decides the current assertion stack with one-shot runs of the other installed solvers.
func (s *Solver) fallback(names []string) (SatRes, map[string]string) {
	var sb strings.Builder
	sb.WriteString("(set-option :produce-models true)\n(set-logic ALL)\n")
	for _, lvl := range s.lines {
		for _, l := range lvl {
			sb.WriteString(l)
			sb.WriteByte('\n')
		}
	}
	sb.WriteString("(check-sat)\n")
	if len(names) > 0 {
		sb.WriteString("(get-value (" + strings.Join(names, " ") + "))\n")
	}
	f, err := os.CreateTemp("", "gosymex-fb-*.smt2")
	if err != nil {
		return Unknown, nil
	}
	if os.Getenv("GOSYMEX_KEEP_FB") == "" {
		defer os.Remove(f.Name())
	}
	f.WriteString(sb.String())
	f.Close()
	to := s.FallbackTimeoutS
	if to <= 0 {
		to = 30
	}
	for _, fb := range s.Fallbacks {
		parts := strings.Fields(fb)
		args := append([]string{fmt.Sprint(to), parts[0]}, parts[1:]...)
		args = append(args, f.Name())
		out, _ := exec.Command("timeout", args...).CombinedOutput()
		txt := string(out)
		lines := strings.Split(txt, "\n")
	scan:
		for i, line := range lines {
			if strings.HasPrefix(strings.TrimSpace(line), "(error") {
				break scan // an error before the verdict: inconclusive for this solver
			}
			switch strings.TrimSpace(line) {
			case "unsat":
				s.noteFallback(parts[0])
				return Unsat, nil
			case "sat":
				s.noteFallback(parts[0])
				var m map[string]string
				if len(names) > 0 {
					m = parseModel(strings.Join(lines[i+1:], " "))
				}
				return Sat, m
			}
		}
	}
	return Unknown, nil
}

func (s *Solver) noteFallback(name string) {
	if s.FallbackUsed == nil {
		s.FallbackUsed = map[string]int{}
	}
	s.FallbackUsed[name]++
}

// CheckWith checks satisfiability of the stack plus extra terms (scoped).
func (s *Solver) CheckWith(extra ...*Term) SatRes {
	s.NoFallback = true
	defer func() { s.NoFallback = false }()
	s.Push()
	for _, e := range extra {
		s.Assert(e)
	}
	r := s.Check()
	s.Pop()
	return r
}

// Model returns values of the given variables after a Sat answer for stack+extra.
func (s *Solver) ModelWith(vars []*Term, extra ...*Term) (SatRes, map[string]string) {
	s.Push()
	defer s.Pop()
	for _, e := range extra {
		s.Assert(e)
	}
	// make sure all vars are declared
	names := []string{}
	for _, v := range vars {
		names = append(names, s.ref(v))
	}
	s.wantVars = names
	r := s.Check()
	s.wantVars = nil
	if r != Sat || len(vars) == 0 {
		return r, nil
	}
	if s.fbModel != nil {
		return r, s.fbModel
	}
	s.send("(get-value (" + strings.Join(names, " ") + "))")
	s.send("(echo \"<<done>>\")")
	var sb strings.Builder
	for {
		line, err := s.readLine()
		if err != nil {
			return Unknown, nil
		}
		if strings.Contains(line, "<<done>>") {
			break
		}
		sb.WriteString(line)
		sb.WriteByte(' ')
	}
	return r, parseModel(sb.String())
}

// parseModel parses "((a 1) (b (- 2)) (c (/ 1.0 3.0)) (d true))" into name -> decimal/rat string.
func parseModel(s string) map[string]string {
	toks := tokenize(s)
	pos := 0
	var parse func() interface{}
	parse = func() interface{} {
		if pos >= len(toks) {
			return nil
		}
		t := toks[pos]
		pos++
		if t == "(" {
			var l []interface{}
			for pos < len(toks) && toks[pos] != ")" {
				l = append(l, parse())
			}
			pos++
			return l
		}
		return t
	}
	root := parse()
	res := map[string]string{}
	lst, ok := root.([]interface{})
	if !ok {
		return res
	}
	for _, p := range lst {
		pl, ok := p.([]interface{})
		if !ok || len(pl) != 2 {
			continue
		}
		name, _ := pl[0].(string)
		if v, ok := evalSexp(pl[1]); ok {
			res[name] = v
		}
	}
	return res
}

func tokenize(s string) []string {
	var toks []string
	cur := ""
	for _, c := range s {
		switch {
		case c == '(' || c == ')':
			if cur != "" {
				toks = append(toks, cur)
				cur = ""
			}
			toks = append(toks, string(c))
		case c == ' ' || c == '\n' || c == '\t':
			if cur != "" {
				toks = append(toks, cur)
				cur = ""
			}
		default:
			cur += string(c)
		}
	}
	if cur != "" {
		toks = append(toks, cur)
	}
	return toks
}

func evalSexp(x interface{}) (string, bool) {
	switch v := x.(type) {
	case string:
		if v == "true" || v == "false" {
			return v, true
		}
		v = strings.TrimSuffix(v, "?")
		r, ok := new(big.Rat).SetString(v)
		if !ok {
			return "", false
		}
		return r.RatString(), true
	case []interface{}:
		if len(v) == 0 {
			return "", false
		}
		op, _ := v[0].(string)
		var args []*big.Rat
		for _, a := range v[1:] {
			s, ok := evalSexp(a)
			if !ok {
				return "", false
			}
			r, ok := new(big.Rat).SetString(s)
			if !ok {
				return "", false
			}
			args = append(args, r)
		}
		switch {
		case op == "-" && len(args) == 1:
			return new(big.Rat).Neg(args[0]).RatString(), true
		case op == "-" && len(args) == 2:
			return new(big.Rat).Sub(args[0], args[1]).RatString(), true
		case op == "/" && len(args) == 2 && args[1].Sign() != 0:
			return new(big.Rat).Quo(args[0], args[1]).RatString(), true
		case op == "+" && len(args) == 2:
			return new(big.Rat).Add(args[0], args[1]).RatString(), true
		case op == "*" && len(args) == 2:
			return new(big.Rat).Mul(args[0], args[1]).RatString(), true
		case op == "to_real" && len(args) == 1:
			return args[0].RatString(), true
		}
	}
	return "", false
}
