package symex

import (
	"sort"
	"strconv"
	"strings"

	"golang.org/x/tools/go/ssa"
)

// Shared-access (lockset) check. A harness marks pieces of code as logical threads (vThread(k)); the threads are run
// one after the other, and every access of thread code to memory that is not the thread's own allocation is recorded
// with the set of mutexes held at that moment. Two accesses to the same location by different threads, at least one
// of them a write, with no mutex in common, could race in a real concurrent execution: reported as a "discipline"
// finding (a static fact about the executed paths; nothing to replay). Granularity: heap object + first field.
// Not seen: accesses after a thread publishes one of its own allocations (they count as thread-local here), and
// element-level distinctions inside one array or map.

type accKey struct{ Obj, Field int }

type accRec struct {
	Thread int
	Write  bool
	Locks  string
	Site   string
}

// heldLocks: the mutexes that protect an access of the given kind: a mutex held in read mode (RLock) protects reads
// against writers but does not protect a write.
func (st *State) heldLocks(write bool) string {
	var ks []int
	for k, v := range st.Mutex {
		if v && !(write && st.RLocked[k]) {
			ks = append(ks, k)
		}
	}
	sort.Ints(ks)
	ss := make([]string, len(ks))
	for i, k := range ks {
		ss[i] = strconv.Itoa(k)
	}
	return strings.Join(ss, ",")
}

func locksDisjoint(a, b string) bool {
	if a == "" || b == "" {
		return true
	}
	bs := map[string]bool{}
	for _, x := range strings.Split(b, ",") {
		bs[x] = true
	}
	for _, x := range strings.Split(a, ",") {
		if bs[x] {
			return false
		}
	}
	return true
}

func (in *Interp) access(st *State, fr *Frame, ins ssa.Instruction, obj int, path []PathEl, write bool) {
	if st.Thread == 0 || obj < 0 {
		return
	}
	if isVerifFile(in, fr.Fn) && !strings.Contains(fr.Fn.String(), "vEnv") {
		return // the harness's own bookkeeping (functions named vEnv... model the environment acting for the thread)
	}
	for _, f := range st.Frames {
		if f.InitMode {
			return // lazy package initialisation (happens before any request in a real process)
		}
	}
	if fr.Fn.Pkg != nil {
		switch fr.Fn.Pkg.Pkg.Path() {
		case "sync", "sync/atomic", "internal/sync":
			return // synchronisation primitives
		}
	}
	if obj >= st.ThreadHeap0 {
		shared := false
		for _, g := range st.Globals {
			if g == obj {
				shared = true
				break
			}
		}
		if !shared {
			return // allocated by this thread
		}
	}
	key := accKey{Obj: obj, Field: -1}
	if len(path) > 0 && path[0].Idx == nil {
		key.Field = path[0].Field
	}
	locks := st.heldLocks(write)
	site := in.posOf(ins, fr)
	for _, r := range st.Acc[key] {
		if r.Thread != st.Thread && (r.Write || write) && locksDisjoint(r.Locks, locks) {
			if st.Spec {
				panic(specAbort{"access"})
			}
			kind := "read"
			if write {
				kind = "write"
			}
			okind := "read"
			if r.Write {
				okind = "write"
			}
			in.obligation(st, "race:unsynchronised-shared-access@"+fr.Fn.Name(), "discipline", site, False,
				kind+" at "+site+" and "+okind+" at "+r.Site+" of the same memory by different requests without a common lock")
			break
		}
	}
	for _, r := range st.Acc[key] {
		if r.Thread == st.Thread && r.Write == write && r.Locks == locks {
			return
		}
	}
	if st.Spec {
		panic(specAbort{"access"})
	}
	n := make(map[accKey][]accRec, len(st.Acc)+1)
	for k, v := range st.Acc {
		n[k] = v
	}
	n[key] = append(append([]accRec(nil), st.Acc[key]...), accRec{Thread: st.Thread, Write: write, Locks: locks, Site: site})
	st.Acc = n
}
