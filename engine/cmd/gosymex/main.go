// gosymex: bounded symbolic execution of a harness function in /repo via go/ssa + SMT.
package main

import (
	"encoding/json"
	"flag"
	"fmt"
	"math/big"
	"os"
	"strings"
	"time"

	"golang.org/x/tools/go/packages"
	"golang.org/x/tools/go/ssa"
	"golang.org/x/tools/go/ssa/ssautil"

	"verif/engine/symex"
)

type overlayFile struct {
	Replace map[string]string `json:"Replace"`
}

func main() {
	dir := flag.String("dir", "/repo", "module directory")
	pkgPath := flag.String("pkg", "", "package pattern (e.g. ./cmd/livesim2/app)")
	entries := flag.String("entry", "", "comma-separated harness function names")
	overlay := flag.String("overlay", "", "go build overlay JSON")
	tags := flag.String("tags", "verif", "build tags")
	unwind := flag.Int("unwind", 16, "loop unwinding bound")
	qtimeout := flag.Int("qtimeout", 10000, "per-query solver timeout (ms)")
	panics := flag.String("panics", "report", "report|assume")
	fix := flag.String("fix", "", "JSON file with fixed input values (concrete mode)")
	maxPaths := flag.Int("maxpaths", 200000, "max paths")
	maxSteps := flag.Int("maxsteps", 2000000, "max steps per path")
	deadline := flag.Int("deadline", 0, "wall-clock budget in seconds (0 = none)")
	solverBin := flag.String("solver", "z3", "solver binary")
	smtlog := flag.String("smtlog", "", "write SMT-LIB2 transcript here")
	trace := flag.Bool("trace", false, "trace instructions")
	out := flag.String("out", "", "result JSON path (default stdout)")
	dump := flag.Bool("dump", false, "dump SSA of entry")
	stubs := flag.String("stubs", "", "comma-separated name=kind extra stubs")
	flag.Parse()

	t0 := time.Now()
	cfg := &packages.Config{
		Mode:       packages.LoadAllSyntax,
		Dir:        *dir,
		BuildFlags: []string{"-tags=" + *tags},
		Env:        append(os.Environ(), "GOFLAGS=-mod=mod", "GOPROXY=off", "GOSUMDB=off", "GOTOOLCHAIN=local"),
	}
	if *overlay != "" {
		data, err := os.ReadFile(*overlay)
		if err != nil {
			fatal(err)
		}
		var ov overlayFile
		if err := json.Unmarshal(data, &ov); err != nil {
			fatal(err)
		}
		cfg.Overlay = map[string][]byte{}
		for virt, realp := range ov.Replace {
			b, err := os.ReadFile(realp)
			if err != nil {
				fatal(err)
			}
			cfg.Overlay[virt] = b
		}
	}
	pkgs, err := packages.Load(cfg, *pkgPath)
	if err != nil {
		fatal(err)
	}
	nerr := 0
	packages.Visit(pkgs, nil, func(p *packages.Package) {
		for _, e := range p.Errors {
			fmt.Fprintln(os.Stderr, "load error:", e)
			nerr++
		}
	})
	if nerr > 0 {
		fatal(fmt.Errorf("%d package load errors", nerr))
	}
	prog, spkgs := ssautil.AllPackages(pkgs, ssa.InstantiateGenerics)
	var target *ssa.Package
	for _, p := range spkgs {
		if p != nil {
			target = p
			break
		}
	}
	if target == nil {
		fatal(fmt.Errorf("no package"))
	}
	target.Build()
	loadS := time.Since(t0).Seconds()

	var fixed map[string]*big.Rat
	if *fix != "" {
		data, err := os.ReadFile(*fix)
		if err != nil {
			fatal(err)
		}
		raw := map[string]json.RawMessage{}
		if err := json.Unmarshal(data, &raw); err != nil {
			fatal(err)
		}
		fixed = map[string]*big.Rat{}
		for k, v := range raw {
			s := strings.Trim(string(v), "\"")
			if s == "true" {
				s = "1"
			} else if s == "false" {
				s = "0"
			}
			r, ok := new(big.Rat).SetString(s)
			if !ok {
				fatal(fmt.Errorf("bad fixed value %s=%s", k, v))
			}
			fixed[k] = r
		}
	}
	stubMap := map[string]string{}
	if *stubs != "" {
		for _, kv := range strings.Split(*stubs, ",") {
			p := strings.SplitN(kv, "=", 2)
			if len(p) == 2 {
				stubMap[p[0]] = p[1]
			}
		}
	}

	results := map[string]interface{}{}
	for _, entry := range strings.Split(*entries, ",") {
		fn := target.Func(entry)
		if fn == nil {
			fatal(fmt.Errorf("harness %s not found in %s", entry, target.Pkg.Path()))
		}
		if *dump {
			fn.WriteTo(os.Stderr)
		}
		sol, err := symex.NewSolver(*solverBin, *qtimeout, *smtlog)
		if err != nil {
			fatal(err)
		}
		c := symex.Config{Unwind: *unwind, MaxPaths: *maxPaths, MaxSteps: *maxSteps, PanicMode: *panics, Fixed: fixed, Trace: *trace, Stubs: stubMap}
		if *deadline > 0 {
			c.Deadline = time.Now().Add(time.Duration(*deadline) * time.Second)
		}
		t1 := time.Now()
		in := symex.NewInterp(prog, sol, c)
		res := in.Run(fn)
		sol.Close()
		results[entry] = map[string]interface{}{
			"result": res, "wall_s": time.Since(t1).Seconds(), "load_s": loadS,
			"solver": *solverBin, "unwind": *unwind, "qtimeout_ms": *qtimeout, "panic_mode": *panics,
		}
	}
	enc, _ := json.MarshalIndent(results, "", " ")
	if *out != "" {
		if err := os.WriteFile(*out, enc, 0o644); err != nil {
			fatal(err)
		}
	} else {
		os.Stdout.Write(enc)
		fmt.Println()
	}
}

func fatal(err error) {
	fmt.Fprintln(os.Stderr, "gosymex:", err)
	os.Exit(2)
}
