// gosymex: bounded symbolic execution of a harness function in /repo via go/ssa + SMT.
package main

import (
	"encoding/json"
	"flag"
	"fmt"
	"math/big"
	"os"
	"strings"
	"time"

	"golang.org/x/tools/go/packages"
	"golang.org/x/tools/go/ssa"
	"golang.org/x/tools/go/ssa/ssautil"

	"verif/engine/symex"
)

type overlayFile struct {
	Replace map[string]string `json:"Replace"`
}

func main() {
	dir := flag.String("dir", "/repo", "module directory")
	pkgPath := flag.String("pkg", "", "package pattern (e.g. ./cmd/livesim2/app)")
	entries := flag.String("entry", "", "comma-separated harness function names")
	overlay := flag.String("overlay", "", "go build overlay JSON")
	tags := flag.String("tags", "verif", "build tags")
	unwind := flag.Int("unwind", 16, "loop unwinding bound")
	qtimeout := flag.Int("qtimeout", 10000, "per-query solver timeout (ms)")
	panics := flag.String("panics", "report", "report|assume")
	fix := flag.String("fix", "", "JSON file with fixed input values (concrete mode)")
	maxPaths := flag.Int("maxpaths", 200000, "max paths")
	maxSteps := flag.Int("maxsteps", 2000000, "max steps per path")
	deadline := flag.Int("deadline", 0, "wall-clock budget in seconds (0 = none)")
	solverBin := flag.String("solver", "z3-new", "primary solver binary (z3-new = z3 5.1.0)")
	fallbacks := flag.String("fallbacks", "cvc5 --tlimit=30000,z3 -T:30", "comma-separated one-shot solver commands tried when the primary answers unknown")
	smtlog := flag.String("smtlog", "", "write SMT-LIB2 transcript here")
	trace := flag.Bool("trace", false, "trace instructions")
	out := flag.String("out", "", "result JSON path (default stdout)")
	samples := flag.Int("samples", 0, "record input models of up to N completed paths")
	excludeF := flag.String("exclude", "", "JSON file: obligation id -> [{name,pred}] known-finding input classes")
	fixlist := flag.String("fixlist", "", "JSON file with a list of {harness,inputs,tag}: run each concretely")
	noIfConv := flag.Bool("noifconv", false, "disable if-conversion (state merging of pure diamonds)")
	guardsF := flag.String("guards", "", "guarded fields: Type:Field1+Field2:mutexField:Exempt1+Exempt2;...")
	altModels := flag.Int("altmodels", 12, "further models requested for a violated obligation that depends on abstracted float rounding")
	maxAlloc := flag.Int("maxalloc", 0, "assume symbolic-size allocations have at most this many elements (0 = no assumption)")
	dump := flag.Bool("dump", false, "dump SSA of entry")
	stubs := flag.String("stubs", "", "comma-separated name=kind extra stubs")
	flag.Parse()

	t0 := time.Now()
	cfg := &packages.Config{
		Mode:       packages.LoadAllSyntax,
		Dir:        *dir,
		BuildFlags: []string{"-tags=" + *tags},
		Env:        append(os.Environ(), "GOFLAGS=-mod=mod", "GOPROXY=off", "GOSUMDB=off", "GOTOOLCHAIN=local"),
	}
	if *overlay != "" {
		data, err := os.ReadFile(*overlay)
		if err != nil {
			fatal(err)
		}
		var ov overlayFile
		if err := json.Unmarshal(data, &ov); err != nil {
			fatal(err)
		}
		cfg.Overlay = map[string][]byte{}
		for virt, realp := range ov.Replace {
			b, err := os.ReadFile(realp)
			if err != nil {
				fatal(err)
			}
			cfg.Overlay[virt] = b
		}
	}
	pkgs, err := packages.Load(cfg, *pkgPath)
	if err != nil {
		fatal(err)
	}
	nerr := 0
	packages.Visit(pkgs, nil, func(p *packages.Package) {
		for _, e := range p.Errors {
			fmt.Fprintln(os.Stderr, "load error:", e)
			nerr++
		}
	})
	if nerr > 0 {
		fatal(fmt.Errorf("%d package load errors", nerr))
	}
	prog, spkgs := ssautil.AllPackages(pkgs, ssa.InstantiateGenerics)
	var target *ssa.Package
	for _, p := range spkgs {
		if p != nil {
			target = p
			break
		}
	}
	if target == nil {
		fatal(fmt.Errorf("no package"))
	}
	target.Build()
	loadS := time.Since(t0).Seconds()

	var fixed map[string]*big.Rat
	if *fix != "" {
		data, err := os.ReadFile(*fix)
		if err != nil {
			fatal(err)
		}
		raw := map[string]json.RawMessage{}
		if err := json.Unmarshal(data, &raw); err != nil {
			fatal(err)
		}
		fixed = map[string]*big.Rat{}
		for k, v := range raw {
			s := strings.Trim(string(v), "\"")
			if s == "true" {
				s = "1"
			} else if s == "false" {
				s = "0"
			}
			r, ok := new(big.Rat).SetString(s)
			if !ok {
				fatal(fmt.Errorf("bad fixed value %s=%s", k, v))
			}
			fixed[k] = r
		}
	}
	stubMap := map[string]string{}
	if *stubs != "" {
		for _, kv := range strings.Split(*stubs, ",") {
			p := strings.SplitN(kv, "=", 2)
			if len(p) == 2 {
				stubMap[p[0]] = p[1]
			}
		}
	}

	var exclude map[string][]symex.Exclusion
	if *excludeF != "" {
		data, err := os.ReadFile(*excludeF)
		if err != nil {
			fatal(err)
		}
		if err := json.Unmarshal(data, &exclude); err != nil {
			fatal(err)
		}
	}
	if *fixlist != "" {
		runFixList(prog, target, *fixlist, *solverBin, *qtimeout, *unwind, *panics, stubMap, *out)
		return
	}

	var guards []symex.Guard
	if *guardsF != "" {
		for _, gs := range strings.Split(*guardsF, ";") {
			p := strings.Split(gs, ":")
			if len(p) < 3 {
				fatal(fmt.Errorf("bad -guards %q", gs))
			}
			g := symex.Guard{Type: p[0], Fields: strings.Split(p[1], "+"), Mutex: p[2]}
			if len(p) > 3 && p[3] != "" {
				g.Exempt = strings.Split(p[3], "+")
			}
			guards = append(guards, g)
		}
	}
	results := map[string]interface{}{}
	for _, entry := range strings.Split(*entries, ",") {
		fn := target.Func(entry)
		if fn == nil {
			fatal(fmt.Errorf("harness %s not found in %s", entry, target.Pkg.Path()))
		}
		if *dump {
			fn.WriteTo(os.Stderr)
		}
		sol, err := symex.NewSolver(*solverBin, *qtimeout, *smtlog)
		if err != nil {
			fatal(err)
		}
		if *fallbacks != "" {
			sol.Fallbacks = strings.Split(*fallbacks, ",")
		}
		c := symex.Config{Unwind: *unwind, MaxPaths: *maxPaths, MaxSteps: *maxSteps, PanicMode: *panics, Fixed: fixed, Trace: *trace, Stubs: stubMap, SampleModels: *samples, Exclude: exclude, NoIfConv: *noIfConv, Guards: guards, MaxAlloc: *maxAlloc, AltModels: *altModels}
		if *deadline > 0 {
			c.Deadline = time.Now().Add(time.Duration(*deadline) * time.Second)
		}
		t1 := time.Now()
		in := symex.NewInterp(prog, sol, c)
		res := in.Run(fn)
		if len(guards) > 0 {
			res.GuardAccessors = symex.GuardAccessors(target, guards)
		}
		sol.Close()
		results[entry] = map[string]interface{}{
			"result": res, "wall_s": time.Since(t1).Seconds(), "load_s": loadS,
			"solver": *solverBin, "fallback_used": sol.FallbackUsed, "unwind": *unwind, "qtimeout_ms": *qtimeout, "panic_mode": *panics,
		}
	}
	enc, _ := json.MarshalIndent(results, "", " ")
	if *out != "" {
		if err := os.WriteFile(*out, enc, 0o644); err != nil {
			fatal(err)
		}
	} else {
		os.Stdout.Write(enc)
		fmt.Println()
	}
}

type fixVec struct {
	Harness string            `json:"harness"`
	Inputs  map[string]string `json:"inputs"`
	Tag     string            `json:"tag,omitempty"`
}

type fixOut struct {
	Harness   string   `json:"harness"`
	Tag       string   `json:"tag,omitempty"`
	Failed    []string `json:"failed"`
	PanicAt   string   `json:"panic_at,omitempty"`
	Observes  map[string][]string `json:"observes"`
	Reached   []string `json:"reached"`
	Completed bool     `json:"completed"`
	Infeasible bool    `json:"infeasible"`
	Unsupported []string `json:"unsupported,omitempty"`
	Unwinds   []string `json:"unwinds,omitempty"`
}

func runFixList(prog *ssa.Program, target *ssa.Package, path, solverBin string, qtimeout, unwind int, panics string, stubs map[string]string, out string) {
	data, err := os.ReadFile(path)
	if err != nil {
		fatal(err)
	}
	var vecs []fixVec
	if err := json.Unmarshal(data, &vecs); err != nil {
		fatal(err)
	}
	sol, err := symex.NewSolver(solverBin, qtimeout, "")
	if err != nil {
		fatal(err)
	}
	defer sol.Close()
	var outs []fixOut
	for _, v := range vecs {
		fn := target.Func(v.Harness)
		if fn == nil {
			fatal(fmt.Errorf("harness %s not found", v.Harness))
		}
		fixed := map[string]*big.Rat{}
		for k, s := range v.Inputs {
			if s == "true" {
				s = "1"
			} else if s == "false" {
				s = "0"
			}
			r, ok := new(big.Rat).SetString(s)
			if !ok {
				fatal(fmt.Errorf("bad value %s=%s", k, s))
			}
			fixed[k] = r
		}
		c := symex.Config{Unwind: unwind, MaxPaths: 10, MaxSteps: 5000000, PanicMode: panics, Fixed: fixed, Stubs: stubs}
		in := symex.NewInterp(prog, sol, c)
		res := in.Run(fn)
		o := fixOut{Harness: v.Harness, Tag: v.Tag, Observes: res.Observes, Completed: res.Paths == 1, Infeasible: res.Paths == 0 && res.PathsPanic == 0 && len(res.Unsupported) == 0,
			Unsupported: res.Unsupported, Unwinds: res.Unwinds}
		for _, cnd := range res.Candidates {
			if cnd.Kind == "panic" {
				o.PanicAt = cnd.Site
			} else if cnd.Kind == "assert" {
				o.Failed = append(o.Failed, cnd.ID)
			}
		}
		for k := range res.Reach {
			o.Reached = append(o.Reached, k)
		}
		outs = append(outs, o)
	}
	enc, _ := json.MarshalIndent(outs, "", " ")
	if out != "" {
		os.WriteFile(out, enc, 0o644)
	} else {
		os.Stdout.Write(enc)
	}
}

func fatal(err error) {
	fmt.Fprintln(os.Stderr, "gosymex:", err)
	os.Exit(2)
}
